#![no_main]
//! libFuzzer target `reader_versions`: the semantic oracle lives in vf::fuzzdec::reader_versions
//! (shared with `vf --replay <artifact>`); any Err is turned into a crash.
use libfuzzer_sys::fuzz_target;

fuzz_target!(|data: &[u8]| {
    if let Some(Err(f)) = vf::fuzzdec::run_target("reader_versions", data) {
        panic!("VIOLATION [{}] {}", f.sig, f.msg);
    }
});
