#![no_main]
//! libFuzzer target `mutate_verify`: the semantic oracle lives in vf::fuzzdec::mutate_verify
//! (shared with `vf --replay <artifact>`); any Err is turned into a crash.
use libfuzzer_sys::fuzz_target;

fuzz_target!(|data: &[u8]| {
    if let Some(Err(f)) = vf::fuzzdec::run_target("mutate_verify", data) {
        panic!("VIOLATION [{}] {}", f.sig, f.msg);
    }
});
