#!/bin/bash
# usage: tools/eval_benign_theme.sh <theme>   (patches in /tmp/benign/<theme>/patchN.diff)
t=$1
cd /verif
for p in ${BENIGN_DIR:-/tmp/benign}/$t/patch*.diff; do
  n=$(basename $p .diff | sed 's/patch//')
  python3 tools/eval_benign.py ${BENIGN_PREFIX:-B}-$t-$n $p ${BENIGN_DIR:-/tmp/benign}/$t/NOTES.md
done
git -C /repo worktree remove --force ${BENIGN_WT:-/tmp/benign-wt}-$t 2>/dev/null
