#!/bin/bash
# usage: tools/eval_benign_theme.sh <theme>   (patches in /tmp/benign/<theme>/patchN.diff)
t=$1
cd /verif
for p in /tmp/benign/$t/patch*.diff; do
  n=$(basename $p .diff | sed 's/patch//')
  python3 tools/eval_benign.py B-$t-$n $p /tmp/benign/$t/NOTES.md
done
git -C /repo worktree remove --force /tmp/benign-wt-$t 2>/dev/null
