#!/bin/bash
# Replayability audit: dump one generated case per list/proptest sub-check of every property
# (VERIF_DUMP_CASES=1), then feed each dumped case to `./check <ID> --replay`; every one must be
# understood and pass on the unchanged tree. Enumerated sub-checks only produce case files on a
# failure; their replay path is exercised by tools/recheck_seeds.py.
cd /verif
O=${1:-/tmp/replay-audit}
rm -rf $O; mkdir -p $O
for i in $(seq -w 1 20); do VERIF_DUMP_CASES=1 VERIF_OUT=$O/out ./check C$i --tier quick > $O/C$i.log 2>&1 || echo "C$i run failed"; done
bad=0
for f in $O/out/replays/dump/*.json; do
  id=$(basename $f | cut -c1-3)
  VERIF_OUT=$O/out2 timeout 900 ./check $id --replay $f > $O/replay.log 2>&1 || { echo "NOT REPLAYABLE: $(basename $f)"; bad=1; }
done
echo "$(ls $O/out/replays/dump | wc -l) case shapes; bad=$bad"
rm -rf $O
exit $bad
