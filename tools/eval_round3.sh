#!/bin/bash
# usage: tools/eval_round3.sh <ID> "<needs1>" "<needs2>" [extra checks]
ID=$1; N1="$2"; N2="$3"; EXTRA="${4:-}"
D=/tmp/seedout3/$ID
CH=$ID; [ -n "$EXTRA" ] && CH="$ID,$EXTRA"
python3 tools/eval_seed.py R3-$ID-a $ID $D/patch.diff $D/demo.rs "$N1" --checks $CH > work/seed-R3-$ID-a.log 2>&1
python3 tools/eval_seed.py R3-$ID-b $ID $D/patch2.diff $D/demo2.rs "$N2" --demo-name seed_demo2 --checks $CH > work/seed-R3-$ID-b.log 2>&1
for s in seeded/R3-$ID-a seeded/R3-$ID-b; do cp $D/NOTES.md $s/ 2>/dev/null; done
grep -hE '"name"|"status"' work/seed-R3-$ID-a.log work/seed-R3-$ID-b.log
cd /repo && git worktree remove --force /tmp/seed3-$ID 2>/dev/null
