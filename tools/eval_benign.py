#!/usr/bin/env python3
"""Evaluate one property-PRESERVING change (a refactoring / optimisation / hardening written by an
independent sub-agent that was asked to keep all 20 properties true while changing as much unpromised
behaviour as it plausibly can) and file it under /verif/benign/<name>/.

usage: tools/eval_benign.py <name> <patch.diff> <notes.md> [--checks C01,C02,...] [--seeds 0,1]

Every listed check (default: all 20, quick tier) is run against a scratch copy of /repo with the patch
applied. Any exit code other than 0 is an alarm that has to be explained: either the change does break
the property after all (then it is not benign and is filed as such, with the failing input), or the
check is over-fitted and has to be corrected.
"""
import json, os, shutil, subprocess, sys, time

ALL = ["C%02d" % i for i in range(1, 21)]

def sh(cmd, cwd=None, env=None, timeout=7200):
    e = dict(os.environ)
    if env:
        e.update(env)
    p = subprocess.run(cmd, shell=True, cwd=cwd, env=e, capture_output=True, text=True, timeout=timeout)
    return p.returncode, p.stdout + p.stderr

def main():
    a = sys.argv[1:]
    name, patch, notes = a[0], a[1], a[2]
    checks, seeds = ALL, ["0"]
    i = 3
    while i < len(a):
        if a[i] == "--checks":
            checks = a[i + 1].split(","); i += 2
        elif a[i] == "--seeds":
            seeds = a[i + 1].split(","); i += 2
        else:
            i += 1
    d = f"/tmp/benigneval/{name}"
    shutil.rmtree(d, ignore_errors=True)
    os.makedirs(d)
    sh(f"rsync -a --exclude target --exclude .git /repo/ {d}/repo/")
    meta = {"name": name, "kind": "property-preserving change", "ran": []}
    rc, out = sh(f"patch -p1 --no-backup-if-mismatch < {patch}", cwd=f"{d}/repo")
    if rc != 0:
        print(name, "patch does not apply", out[-300:])
        shutil.rmtree(d, ignore_errors=True)
        return 1
    env = {"CARGO_TARGET_DIR": f"{d}/target-tests", "RUSTFLAGS": ""}
    rc, out = sh("timeout -k 5 900 cargo test --workspace --no-fail-fast --offline 2>&1 | grep -E '^test result|^error|FAILED|failed' | head", cwd=f"{d}/repo", env=env)
    ok = "test result" in out and all(" 0 failed" in l for l in out.splitlines() if "test result" in l) and "error" not in out
    meta["existing_tests_pass_with_patch"] = ok
    shutil.rmtree(f"{d}/target-tests", ignore_errors=True)
    meta["checks"] = {}
    alarms = []
    for seed in seeds:
        for c in checks:
            t0 = time.time()
            rc, out = sh(f"./check {c} --tier quick", cwd="/verif", env={"VERIF_REPO": f"{d}/repo", "VERIF_TARGET": f"{d}/target", "VERIF_OUT": f"{d}/out", "VERIF_SEED": seed})
            detail = ""
            lines = out.splitlines()
            for j, l in enumerate(lines):
                if l.startswith("VIOLATION"):
                    detail = " | ".join(x.strip() for x in lines[j:j + 3])[:700]
                    break
            if rc != 0 and not detail:
                detail = " | ".join(lines[-4:])[:700]
            meta["checks"][f"{c}@seed{seed}"] = {"exit": rc, "secs": round(time.time() - t0, 1), "detail": detail}
            if rc != 0:
                alarms.append(f"{c}@seed{seed}")
    meta["alarms"] = alarms
    meta["status"] = "silent on all listed checks" if not alarms else "ALARM: " + ",".join(alarms)
    out_dir = f"/verif/benign/{name}"
    os.makedirs(out_dir, exist_ok=True)
    shutil.copy(patch, f"{out_dir}/patch.diff")
    if os.path.exists(notes):
        shutil.copy(notes, f"{out_dir}/NOTES.md")
    json.dump(meta, open(f"{out_dir}/meta.json", "w"), indent=1)
    print(name, "| tests", "pass" if ok else "FAIL", "|", meta["status"])
    for k in alarms:
        print("   ", k, meta["checks"][k]["detail"][:600])
    shutil.rmtree(d, ignore_errors=True)
    return 0

sys.exit(main())
