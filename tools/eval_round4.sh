#!/bin/bash
# usage: tools/eval_round4.sh <name> <propA> <checksA> "<needsA>" <propB> <checksB> "<needsB>"
# demos: demo.rs|demo.sh and demo2.rs|demo2.sh in /tmp/r4/<name>/
N=$1; PA=$2; CA=$3; NA="$4"; PB=$5; CB=$6; NB="$7"
D=/tmp/r4/$N
mkdir -p work
da=$D/demo.rs; [ -f $D/demo.sh ] && da=$D/demo.sh
db=$D/demo2.rs; [ -f $D/demo2.sh ] && db=$D/demo2.sh
python3 tools/eval_seed.py R4-$N-a $PA $D/patch.diff $da "$NA" --checks $CA > work/seed-R4-$N-a.log 2>&1
python3 tools/eval_seed.py R4-$N-b $PB $D/patch2.diff $db "$NB" --demo-name seed_demo2 --checks $CB > work/seed-R4-$N-b.log 2>&1
for s in seeded/R4-$N-a seeded/R4-$N-b; do cp $D/NOTES.md $s/ 2>/dev/null; done
grep -hE '"name"|"status"' work/seed-R4-$N-a.log work/seed-R4-$N-b.log
git -C /repo worktree remove --force /tmp/r4-wt-$N 2>/dev/null
