#!/usr/bin/env python3
"""Regenerates /verif/MANIFEST.json from the table below and validates it
against /root/.vp/MANIFEST.schema.json when jsonschema is importable."""
import json, subprocess, sys, os

BUILT = set(sys.argv[1:]) if len(sys.argv) > 1 else None

HOOK_COMMITS = subprocess.run(
    ["git", "-C", "/repo", "log", "--format=%H %s"], capture_output=True, text=True
).stdout.splitlines()
HOOK_COMMITS = [l.split()[0] for l in HOOK_COMMITS if " verif hook:" in l]

P = {
 "C01": dict(level="exploration", tech="exhaustive small-scope enumeration + proptest model-based round trip (ordered-map model)",
   text="Every builder front end x cache geometry x key/value shape explored is built, opened and enumerated through every streaming API and compared as a sequence with an ordered-map model; all 2^15 subsets of the 15-key universe over {a,b}^<=3 x 6 value patterns x 4 geometries and all value assignments over {0,1,256} on the 7-key universe are enumerated completely, the rest is sampled by proptest (fan-out 0..256, u64 boundary values, long keys, 10^5..2*10^6-key recipes). Results are also reached through Map::from(Fst), Set::from(Fst), AsRef<Fst>, &Map/&Set IntoStreamer, every collector, into_map/into_set/into_fst/finish on &mut Vec, two interleaved streams, and from_iter/extend_iter fed by iterators with exact, useless and missing size hints.",
   note="Trusted: the model (sorted Vec/BTreeMap), the harness build helper; sampled beyond the exhaustive scopes; keys > 70 kB and > 2e6 keys not explored.", ref="5/C01"),
 "C02": dict(level="exploration", tech="proptest + exhaustive probes against an ordered-map model (present and absent keys)",
   text="For each built FST every key, every proper prefix, one-byte extensions, single-byte substitutions at every position (all 255 in the small scopes, all 256 bytes at forced fan-out nodes) and random strings are probed through Map::get/contains_key, Set::contains and raw get/contains_key and compared with model membership; the same on files of 64 KiB..2 MiB and on one file beyond 16 MiB (address deltas of 2, 3 and 4 bytes on the lookup path).",
   note="Trusted: the model; FST space sampled as in C01.", ref="5/C02"),
 "C03": dict(level="exploration", tech="proptest + exhaustive bound grids against a model range filter",
   text="Histories of 0..4 bound-setting calls (ge/gt/le/lt, last of each kind wins) with bound keys constructed from keys, prefixes, +/- one byte, divergent and empty strings are run through Map/Set/Fst::range and compared as sequences with the model filter; subsets of the 15-key universe x all (kind,key,kind,key) combinations over a 341-string bound universe are enumerated; sampled windows with present/absent/over-long bound keys on files beyond 64 KiB.",
   note="Trusted: the model filter; bound keys longer than longest key + 2 only sampled.", ref="5/C03"),
 "C04": dict(level="exploration", tech="proptest + enumeration of small DFAs with every sound hint assignment; independent fold of the automaton over model keys; metamorphic hint-weakening",
   text="Generated contract-abiding automata (all DFAs with <= 2 states over 2 byte classes with every sound can_match assignment, random DFAs up to 8 states with randomly weakened hints, shipped automata and compositions, Levenshtein, regex-automata DFAs) are searched with bounds and compared with an independent per-key fold through the public trait, including the reported state for search_with_state (raw, Map and Set builders, each with its own bound setters), and with the same automaton with all hints weakened.",
   note="Trusted: the per-key fold and reachability computation in the harness; automata with unbounded state spaces not generated.", ref="5/C04"),
 "C05": dict(level="exploration", tech="exhaustive k<=3 tuples over a 4-key universe + proptest k<=6 against set-theoretic definitions on models",
   text="All tuples (k<=3) of subsets of {eps,a,ab,b} with tie/differing values, and random tuples up to k=6 of streams of mixed kinds (FST, range, search, user streamer) are run through union/intersection/difference/symmetric_difference of raw, map and set OpBuilders and compared with the set-theoretic definition (keys as a sequence, IndexedValue lists as sets) and is_disjoint/is_subset/is_superset with BTreeSet relations; further families use 7..70 and 250..260 streams, keys longer than 64 bytes with long shared prefixes and values at 2^32 / u64::MAX; Fst::op(), Map::op() and Set::op() run all four operations with any first stream (incl. an empty one, and alone).",
   note="Trusted: BTreeMap/BTreeSet definitions; k = 0 for difference is outside the quantifier.", ref="5/C05"),
 "C06": dict(level="exploration", tech="exhaustive call histories <= 5 over a 4-key universe + proptest histories against a reference interpreter",
   text="Every sequence of <= 5 inserts over {eps,a,ab,b} for map/set/raw builders, random histories up to 200 calls with 0-50% invalid calls, and bulk front ends with the first bad item at every position are interpreted step by step against a reference interpreter: result variant and payload of every call, bytes_written unchanged by rejected calls, final content and len.",
   note="Trusted: the reference interpreter (last accepted key); mixing add and insert on one raw builder is outside the statement.", ref="5/C06"),
 "C07": dict(level="exploration", tech="proptest + exhaustive scripted-sink schedules; differential against the in-memory build",
   text="Scripted io::Write sinks (every fixed cap 1..16, every position of one short write, every position of one Interrupted, random scripts, BufWriter, pre-filled Vec, Cursor) receive the build; the bytes received must equal the in-memory build, open, verify and answer queries, and bytes_written must equal the sink's own count after every call — also right after a call that failed half-way through a buffer — and files beyond 64 KiB are streamed through sinks accepting 1..7 bytes per call.",
   note="Trusted: the scripted sink; sinks that lose accepted bytes are outside io::Write's contract.", ref="5/C07"),
 "C08": dict(level="exploration", tech="differential against a bitwise CRC-32C + exhaustive single-byte corruption of small FSTs + proptest bursts + libFuzzer (thorough)",
   text="The implementation's masked checksum is compared with an independent bitwise CRC-32C for every length 0..700 (4096 thorough) x contents x chunkings around 16-byte blocks; every built FST's trailer is compared with the reference; every byte x every replacement value of small FSTs (sampled for larger) and 2-4 byte bursts must fail to open or fail verify(); 13 special values are written over the checksum field; every generated sequence is also streamed through a short-writing sink (chunking clause through the builder); CRC inputs up to 1 MiB at several slice alignments; sampled corruption of 64 KiB..17 MiB files.",
   note="Trusted: the bitwise CRC (checked against published vectors); multi-burst corruption beyond 4 bytes is not a CRC guarantee and not claimed.", ref="5/C08"),
 "C09": dict(level="exploration", tech="independent format decoder (written from the format description) applied to every generated build; tiling + decode-to-model oracle",
   text="Every generated build (C01's space incl. files needing 2-3 byte deltas and one file beyond 16 MiB with 4-byte deltas) is parsed by an independent decoder that checks header, footer, node layouts, in-bounds earlier targets, exact tiling of the body by node extents, index tables, and decodes the map without the crate's reader, comparing with the model.",
   note="Trusted: the harness decoder (cross-validated: must decode every golden file and every pinned build) and the frozen 256-entry input-rank table.", ref="5/C09, App. A"),
 "C10": dict(level="exploration", tech="independent reference encoder (v1/v2/v3) + golden files + header sweep; query suite against the model",
   text="Maps from the shared space are encoded by an independent encoder in versions 1, 2 and 3 under several writer policies, opened through Vec, &[u8], Box, Arc, Cow and Mmap containers and queried (stream, get, range, search, set operations, len, verify) against the model; a sweep over 16 version values (incl. ones whose low byte or low 32 bits look supported) x lengths 0..40 and a second one over supported versions x lengths 24..44 x root-address / key-count field values check the documented error for each input, opened directly and through Fst/Map/Set::map_data; old-version files of 70 KiB..600 KiB (incl. 40/100/200-way nodes) get stream, sampled lookups, sampled ranges and - where values increase with the keys - get_key/get_key_into.",
   note="Trusted: the reference encoder (v1/v2 differ from its cross-validated v3 mode only by index/checksum); no historical crate release is available offline.", ref="5/C10, App. B"),
 "C11": dict(level="fault_enumeration", tech="exhaustive single-fault injection at every write call and the flush x 7 failure kinds, under catch_unwind",
   text="For each explored key sequence and each of five routes (raw builder + finish, MapBuilder/SetBuilder + finish, the same + into_inner, extend_iter + into_inner, extend_stream + finish) the number of write calls W is measured, then every call index 0..W and the final flush is made the single failing call for each failure kind (5 ErrorKinds, explicit WriteZero, Ok(0)); the faulted builder call must return Err(Io) of that kind, earlier calls Ok, no panic, and success only if the sink holds the reference bytes and was flushed after the last write (the fault-free run of every sequence exercises that clause).",
   note="Trusted: the fault-injecting sink; behaviour of later calls on a builder that already failed is not part of the statement.", ref="5/C11"),
 "C12": dict(level="exploration", tech="proptest against an independent minimal-DFA construction (hash-consed trie) under an observed no-eviction premise; corpus sharing ratio",
   text="For builds in which the eviction hook counted zero - or in which, by counting, no cache row can have had to evict (no more distinct nodes below the root than cells in one row) - sets must be isomorphic to the independently computed minimal acyclic DFA and maps must contain no two nodes with the same signature; for every build emitted nodes <= trie nodes; on the shipped corpora realised sharing must exceed one half of the achievable; extra shapes: cross products (equivalent wide nodes), shared suffixes of 64..300 bytes, > 1 MiB files with few distinct nodes, large sets/maps under a roomy geometry, every subset of a 10-key family with at most two distinct nodes below the root under two-cell rows (1..10000 rows), rows of 48..400 cells for small inputs, and 3000-key corpus prefixes under one row wider than their node count (exactly minimal).",
   note="Trusted: the harness trie/min-DFA code; the eviction hook only where the counting premise does not apply; transducer-minimality (output placement) not claimed.", ref="5/C12"),
 "C13": dict(level="exploration", tech="metamorphic heap measurement with a counting global allocator in single-threaded probe children (N vs N/2)",
   text="Key sequences with bounded fan-out and key length and unboundedly many distinct nodes are streamed to a discarding sink in a child process with a counting allocator; live heap at N/2 and peak up to the end of finish() must agree within 10% + 128 KiB (10% + 8 KiB for caches of <= 256 cells, where slow leaks show) for 21 configurations: fan-outs 2..40, key lengths 12..250, prefix-pair keys, increasing/hashed/decreasing values, three geometries, discarding sinks that take at most 1/3/4/8 bytes per call with every 7th call interrupted (what the sink has not taken must not pile up); the number of live heap blocks may rise by at most 64 (caches of <= 256 cells) / 1024 after N/2 (<= 8 on the pinned tree), which sees slow leaks of small blocks.",
   note="Asymptotic claim checked at finitely many N (4e5 quick, up to 1e7 thorough); growth below 5% per doubling would pass.", ref="5/C13"),
 "C14": dict(level="exploration", tech="metamorphic heap measurement of traversals with a counting allocator (small N vs large N); zero-allocation assertion for open/get",
   text="Peak extra heap and the number of allocations during stream/range/search traversals and k-way set operations are measured at two FST sizes in probe children and must not grow with N; operations: stream, range, search with Subsequence / StartsWith / DFAs with and without dead states / Levenshtein / regex DFA, search_with_state, the four set operations for k in {2,3,8} (plus differences and a symmetric difference in which every candidate is subtracted, so that nothing is emitted) and a union of range and search streams; Fst::new / Map::new / Set::new on borrowed, Cow and mapped bytes, get, contains_key, contains and len (also on an FST with fan-outs 256/24/12) must perform zero allocations; Map/Set streams (stream, keys, values, range, search, search_with_state), their OpBuilders and the predicates are measured like the raw ones.",
   note="Finitely many N; generous multiplicative + additive tolerance calibrated on the pinned tree.", ref="5/C14"),
 "C15": dict(level="exploration", tech="differential byte-equality across construction entry points, threads and child processes",
   text="The same (type, sequence) is built through every entry point incl. extend_stream of unions of part-sets, memory vs Vec vs scripted sinks, with different buffer capacities, with the builder inspected between inserts, from iterators without size hint, on fresh threads, repeated in-process, in 16 threads and in child processes (one of them refused every allocation >= 256 KiB: it may die but not produce other bytes); one sequence exceeds 10^5 keys; all outputs must be byte-identical - also when the sequence is built again on the same thread right after builds that died of an I/O error at each write call.",
   note="Other platforms/endianness out of reach.", ref="5/C15"),
 "C16": dict(level="exploration", tech="exhaustive + proptest inverse-of-model oracle on monotone maps",
   text="Maps with strictly increasing values (all subsets of the 15-key universe x gap patterns; random shapes) are queried with every stored value, +/-1, 0, u64::MAX and random values; get_key/get_key_into (on a junk-prefilled buffer) must equal the model inverse; maps of up to 4000 keys with 256-way nodes and values above 2^63 included.",
   note="Non-monotone maps never generated (documented unspecified).", ref="5/C16"),
 "C17": dict(level="exploration", tech="exhaustive (q,d,k) over an 8-character multi-byte alphabet against a DP edit distance; proptest beyond",
   text="All queries and keys of <= 3 characters over {a,e-acute,e-circumflex,2 snowman-block symbols,2 emoji,musical symbol} x d in 0..2 are decided by the automaton and by an O(|q||k|) DP over chars; Set::search results, dead-state soundness and state limits (via the hook) are checked too, as are all |q|,|k| <= 2 over 16 code points at the UTF-8 encoding boundaries, queries of up to 26 characters with d <= 4, distances 3..9, 100, 253..258, 300, 511, 512, 1000 with queries of <= 3 characters, agreement of new() with the default limit of 10 000 states, and sets that also hold byte strings that are not UTF-8 (outside the domain: whether they are returned is recorded only; the valid keys returned must be exactly those within the distance).",
   note="Trusted: the DP edit distance; |k| <= 3 (4 thorough) exhaustive, random beyond.", ref="5/C17"),
 "C18": dict(level="exploration", tech="enumeration/proptest of automaton expression trees against an explicit reference DFA compiler (products, latch, complement) up to the pumping bound",
   text="Expression trees to depth 3 over Str, Subsequence, AlwaysMatch and every small component DFA with every sound hint assignment are built with the crate's combinators and compared state-by-state with a reference DFA: acceptance of every string up to |Q|+1 over class representatives, can_match=false only if no accepting continuation, will_always_match=true only if all continuations accept; random trees to depth 4, patterns of 256..300 bytes, and the bytes 0x00/0x7f/0x80/0xff always part of the alphabet. Borrowed automata (the blanket impl for references), alone and under each combinator, must accept what the owned composition accepts and have sound hints (brute force over short strings).",
   note="Trusted: the reference compiler in the harness.", ref="5/C18"),
 "C19": dict(level="exploration", tech="differential CLI runs over batch/fd-limit/thread/schedule-seed configurations against a model fold; byte-equality across configurations",
   text="The fst binary (hooks on: seeded delays at channel points, batch trace) is run on generated line/CSV multisets over batch sizes, fd limits, thread counts, merge modes and schedule seeds; output must exist, verify, equal the model fold and be byte-identical across configurations, and equal a sorted build when keys are unique; inputs include CRLF files, files without final newline, empty files anywhere in the list, one input on stdin, keys with NUL / control / CR bytes and long shared prefixes, --force over an existing longer output, values beyond 2^32 and up to ~180 rows (hundreds of batches, several generations); a run that does not finish within 45 seconds is reported as a hang.",
   note="Interleavings are perturbed, not enumerated; a bug needing one specific interleaving may be missed.", ref="5/C19"),
 "C20": dict(level="exploration", tech="exhaustive header/footer grid + proptest random/truncated/mutated inputs under catch_unwind + libFuzzer/ASan (thorough); auxiliary -F unsafe_code lint",
   text="Every length 0..64 x boundary version/root/len values x filler, random byte strings, every truncation and single-byte mutation of valid FSTs are opened through Fst/Map/Set::new (and swapped in through Fst/Map/Set::map_data) and, when they open, the metadata accessors and verify() are called, all under catch_unwind; inputs of 64 KiB..16 MiB with plausible headers/footers included; the library is additionally compiled with -F unsafe_code as the property prescribes.",
   note="root()/get/stream on malformed-but-openable input may panic by documentation and are not asserted.", ref="5/C20"),
}

def main():
    built = BUILT if BUILT is not None else set(
        l.strip() for l in open("/verif/tools/built.txt") if l.strip())
    checks, na = [], []
    for pid in sorted(P):
        p = P[pid]
        if pid in built:
            checks.append({
                "property_id": pid,
                "quick_cmd": f"./check {pid} --tier quick",
                "thorough_cmd": f"./check {pid} --tier thorough",
                "evidence_file": f"/verif/evidence/{pid}.json",
                "replay_cmd_template": f"./check {pid} --replay {{path}}",
                "engine": "vf",
                "level_claimed": {"category": p["level"], "text": p["text"], "design_ref": "DESIGN.md section " + p["ref"]},
                "level_note": p["note"],
                "technique": p["tech"],
            })
        else:
            na.append({"property_id": pid, "reason": "check not built yet in this round (work in progress; planned in DESIGN.md section " + p["ref"] + ")"})
    m = {
        "version": 1,
        "setup_cmd": "./setup.sh",
        "hooks": {
            "guard": "--cfg burntsushi_fst_verif",
            "enable": "RUSTFLAGS=\"--cfg burntsushi_fst_verif\" (set by ./check and harness/.cargo/config.toml); the harness depends on fst by path (/repo), fst-bin is built into /verif/target/repo-hooks",
            "baseline_off_cmd": "cd /repo && cargo test --workspace --no-fail-fast --offline",
            "source_commits": HOOK_COMMITS[::-1],
            "add_only": True,
        },
        "engines": [
            {"name": "vf", "path": "/verif/harness", "serves_properties": sorted(built),
             "kind_free_text": "Rust binary: exhaustive small-scope enumerators + sharded proptest runners + independent oracles (model, format decoder/encoder, bitwise CRC, DP edit distance, reference DFAs, minimal DFA, counting allocator)"},
        ],
        "checks": checks,
        "not_applicable": na,
        "notes": "Technique family: property-based testing and fuzzing. See DESIGN.md. known_findings.txt lists fixed/known findings.",
    }
    json.dump(m, open("/verif/MANIFEST.json", "w"), indent=1)
    try:
        import jsonschema
        jsonschema.validate(m, json.load(open("/root/.vp/MANIFEST.schema.json")))
        print("MANIFEST.json valid;", len(checks), "checks,", len(na), "not_applicable")
    except ImportError:
        print("jsonschema not importable; wrote MANIFEST.json unvalidated")

main()
