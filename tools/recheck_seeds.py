#!/usr/bin/env python3
"""Regression over every kept seeded change with the current harness.

For each /verif/seeded/<name>/ (patch.diff + meta.json) that is a valid seeded change:
  1. scratch copy of /repo with the patch applied;
  2. every check that caught it when it was filed is run again (quick tier, VERIF_SEED=0) and must exit 1
     with a VIOLATION line;
  3. the replay file named on that line is replayed against the patched copy (must exit 1: the saved case
     reproduces) and against /repo itself (must exit 0: the saved case is clean on the unchanged tree).
Results go to /verif/seeded/RECHECK.json and RECHECK.md.

usage: tools/recheck_seeds.py [--slots N] [--only substring]
       tools/recheck_seeds.py --names a,b,c --base-rev <rev>     (merge into RECHECK.json)

--base-rev: a few kept patches edit lines that a later `fix:` commit in /repo rewrote and no longer
apply (or no longer compile) on the current tree. They are re-run against the revision they were
written for (git archive), with the one generator feature that targets the fixed defect switched off
(VERIF_NO_ADD_MIX=1), and merged into the results with a note.
"""
import json, os, re, shutil, subprocess, sys, time
from concurrent.futures import ThreadPoolExecutor

def sh(cmd, cwd=None, env=None, timeout=3000):
    e = dict(os.environ)
    if env:
        e.update(env)
    try:
        p = subprocess.run(cmd, shell=True, cwd=cwd, env=e, capture_output=True, text=True, timeout=timeout)
        return p.returncode, p.stdout + p.stderr
    except subprocess.TimeoutExpired:
        return 124, "timeout"

BASE_REV = None

def one(name):
    sd = f"/verif/seeded/{name}"
    meta = json.load(open(f"{sd}/meta.json"))
    res = {"name": name, "property": meta.get("property"), "checks": {}}
    caught = meta.get("caught_by") or []
    if not caught:
        res["note"] = "not caught when filed (documented miss)"
        return res
    d = f"/tmp/seedrecheck/{name}"
    shutil.rmtree(d, ignore_errors=True)
    os.makedirs(d)
    if BASE_REV:
        os.makedirs(f"{d}/repo")
        sh(f"git -C /repo archive {BASE_REV} | tar -x -C {d}/repo")
        res["base"] = BASE_REV
    else:
        sh(f"rsync -a --exclude target --exclude .git /repo/ {d}/repo/")
    rc, out = sh(f"patch -p1 --no-backup-if-mismatch < {sd}/patch.diff", cwd=f"{d}/repo")
    if rc != 0:
        res["note"] = "patch no longer applies"
        shutil.rmtree(d, ignore_errors=True)
        return res
    env = {"VERIF_REPO": f"{d}/repo", "VERIF_TARGET": f"{d}/target", "VERIF_OUT": f"{d}/out", "VERIF_SEED": "0"}
    if BASE_REV:
        env["VERIF_NO_ADD_MIX"] = "1"
    for c in caught:
        t0 = time.time()
        rc, out = sh(f"./check {c} --tier quick", cwd="/verif", env=env)
        m = re.search(r"^VIOLATION property=(\S+) replay=(\S+)", out, re.M)
        r = {"exit": rc, "secs": round(time.time() - t0, 1)}
        if m:
            rp = m.group(2)
            keep = f"{d}/replay-{c}.json"
            try:
                shutil.copy(rp, keep)
            except Exception:
                keep = rp
            rc2, out2 = sh(f"./check {c} --replay {keep}", cwd="/verif", env=env)
            r["replay_on_patched"] = rc2
            # against the unchanged tree: default target dir, outputs redirected away from /verif
            rc3, out3 = sh(f"./check {c} --replay {keep}", cwd="/verif", env={"VERIF_OUT": f"{d}/out-pristine", "VERIF_SEED": "0"})
            if BASE_REV and rc3 != 0:
                r["replay_on_pristine_note"] = "the unchanged tree is the one after the fix; this case was written for the tree before it"
            r["replay_on_pristine"] = rc3
            if rc2 != 1 or rc3 != 0:
                r["replay_detail"] = (out2[-300:] + " || " + out3[-300:])
        res["checks"][c] = r
    shutil.rmtree(d, ignore_errors=True)
    return res

def write_report(results):
    json.dump(results, open("/verif/seeded/RECHECK.json", "w"), indent=1)
    caught_then = [r for r in results if r["checks"]]
    n_caught = sum(1 for r in caught_then if all(v.get("exit") == 1 for v in r["checks"].values()))
    n_replay = sum(1 for r in caught_then if all(v.get("replay_on_patched") == 1 and v.get("replay_on_pristine") == 0 for v in r["checks"].values()))
    n_base = sum(1 for r in results if r.get("base"))
    with open("/verif/seeded/RECHECK.md", "w") as f:
        f.write("# Seeded changes re-run against the current harness\n\n")
        f.write(f"{len(results)} kept changes; {len(caught_then)} were re-run (the others are the documented non-catches); "
                f"{n_caught} of those are caught again by every check that caught them when they were filed (quick tier, VERIF_SEED=0); "
                f"for {n_replay} every replay file written by the check reproduces the violation on the changed tree (exit 1) and is clean on the unchanged tree (exit 0). "
                f"{n_base} changes were re-run against the revision they were written for (column 'base'), because fix 31bb6f9 rewrote the lines they edit.\n\n")
        f.write("| change | property | base | check: exit / replay on changed / replay on unchanged |\n|---|---|---|---|\n")
        for r in results:
            cs = "; ".join(f"{c}: {v.get('exit')} / {v.get('replay_on_patched')} / {v.get('replay_on_pristine')}" for c, v in r["checks"].items()) or r.get("note", "")
            if r.get("note") and r["checks"]:
                cs += " - " + r["note"]
            f.write(f"| {r['name']} | {r.get('property')} | {r.get('base', '')} | {cs} |\n")

def main():
    global BASE_REV
    slots, only = 4, None
    names_arg = None
    a = sys.argv[1:]
    i = 0
    while i < len(a):
        if a[i] == "--slots":
            slots = int(a[i + 1]); i += 2
        elif a[i] == "--only":
            only = a[i + 1]; i += 2
        elif a[i] == "--names":
            names_arg = a[i + 1].split(","); i += 2
        elif a[i] == "--base-rev":
            BASE_REV = a[i + 1]; i += 2
        else:
            i += 1
    names = sorted(n for n in os.listdir("/verif/seeded") if os.path.exists(f"/verif/seeded/{n}/meta.json"))
    if only:
        names = [n for n in names if only in n]
    if names_arg:
        names = [n for n in names if n in names_arg]
    results = []
    with ThreadPoolExecutor(max_workers=slots) as ex:
        for r in ex.map(one, names):
            results.append(r)
            ok = all(v.get("exit") == 1 and v.get("replay_on_patched") == 1 and v.get("replay_on_pristine") == 0 for v in r["checks"].values())
            print(r["name"], "OK" if (ok and r["checks"]) else r.get("note", "PROBLEM " + json.dumps(r["checks"])[:400]), flush=True)
    if only:
        return 0
    if names_arg:
        old = json.load(open("/verif/seeded/RECHECK.json"))
        by = {r["name"]: r for r in results}
        merged = [by.get(r["name"], r) for r in old] + [r for r in results if r["name"] not in {o["name"] for o in old}]
        write_report(merged)
        return 0
    write_report(results)
    return 0

sys.exit(main())
