#!/bin/bash
# usage: ROUND=<n> tools/eval_round.sh <name> <propA> <checksA> "<needsA>" <propB> <checksB> "<needsB>"
# demos: demo.rs|demo.sh and demo2.rs|demo2.sh in /tmp/r${R}/<name>/
R=${ROUND:-4}; N=$1; PA=$2; CA=$3; NA="$4"; PB=$5; CB=$6; NB="$7"
D=/tmp/r${R}/$N
mkdir -p work
da=$D/demo.rs; [ -f $D/demo.sh ] && da=$D/demo.sh
db=$D/demo2.rs; [ -f $D/demo2.sh ] && db=$D/demo2.sh
python3 tools/eval_seed.py R${R}-$N-a $PA $D/patch.diff $da "$NA" --checks $CA > work/seed-R${R}-$N-a.log 2>&1
python3 tools/eval_seed.py R${R}-$N-b $PB $D/patch2.diff $db "$NB" --demo-name seed_demo2 --checks $CB > work/seed-R${R}-$N-b.log 2>&1
for s in seeded/R${R}-$N-a seeded/R${R}-$N-b; do cp $D/NOTES.md $s/ 2>/dev/null; done
grep -hE '"name"|"status"' work/seed-R${R}-$N-a.log work/seed-R${R}-$N-b.log
git -C /repo worktree remove --force /tmp/r${R}-wt-$N 2>/dev/null
