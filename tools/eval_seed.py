#!/usr/bin/env python3
"""Evaluate one seeded change (a patch that breaks a property, produced by an
independent sub-agent) and file it under /verif/seeded/<name>/.

usage: tools/eval_seed.py <name> <property> <patch.diff> <demo.rs> <needs...text> --checks C04,C18 [--demo-name seed_demo] [--bin]

Steps (all in a scratch copy of /repo under /tmp, removed afterwards):
  1. the patch applies to /repo's HEAD and the workspace compiles;
  2. the repository's own tests pass with it (guard off);
  3. the demonstration fails with the patch and passes without it;
  4. the listed checks (quick tier, VERIF_SEED=0) are run against the patched copy.
"""
import json, os, shutil, subprocess, sys, time

def sh(cmd, cwd=None, env=None, timeout=3600):
    e = dict(os.environ)
    if env:
        e.update(env)
    p = subprocess.run(cmd, shell=True, cwd=cwd, env=e, capture_output=True, text=True, timeout=timeout)
    return p.returncode, p.stdout + p.stderr

def main():
    a = sys.argv[1:]
    name, prop, patch, demo = a[0], a[1], a[2], a[3]
    checks = []
    needs = []
    demo_name = "seed_demo"
    i = 4
    while i < len(a):
        if a[i] == "--checks":
            checks = a[i + 1].split(",")
            i += 2
        elif a[i] == "--demo-name":
            demo_name = a[i + 1]
            i += 2
        else:
            needs.append(a[i])
            i += 1
    d = f"/tmp/seedeval/{name}"
    shutil.rmtree(d, ignore_errors=True)
    os.makedirs(d)
    sh(f"rsync -a --exclude target --exclude .git /repo/ {d}/repo/")
    meta = {"name": name, "property": prop, "needs_to_manifest": " ".join(needs), "ran": []}
    rc, out = sh(f"patch -p1 --no-backup-if-mismatch < {patch}", cwd=f"{d}/repo")
    meta["applies"] = rc == 0
    if rc != 0:
        meta["status"] = "patch does not apply"
        print(json.dumps(meta, indent=1)); print(out[-500:])
        shutil.rmtree(d, ignore_errors=True)
        return 1
    env = {"CARGO_TARGET_DIR": f"{d}/target-tests", "RUSTFLAGS": ""}
    rc, out = sh("timeout -k 5 900 cargo test --workspace --no-fail-fast --offline 2>&1 | grep -E '^test result|^error|FAILED|failed' | head", cwd=f"{d}/repo", env=env)
    ok = "test result" in out and all(" 0 failed" in l for l in out.splitlines() if "test result" in l) and "error" not in out
    meta["existing_tests_pass_with_patch"] = ok
    meta["ran"].append("cargo test --workspace --no-fail-fast --offline   (patched scratch copy, guard off): " + ("pass" if ok else "FAIL: " + out[-300:]))
    if demo.endswith(".sh"):
        # shell demonstration driving the fst binary (FST_BIN)
        def run_sh():
            rcb, outb = sh("cargo build --offline -p fst-bin 2>&1 | tail -3", cwd=f"{d}/repo", env=env)
            return sh(f"FST_BIN={d}/target-tests/debug/fst timeout -k 5 600 bash {demo} 2>&1 | tail -8", cwd=f"{d}")
        rc1, out1 = run_sh()
        sh(f"patch -p1 -R --no-backup-if-mismatch < {patch}", cwd=f"{d}/repo")
        rc2, out2 = run_sh()
        fails_with = rc1 != 0 or "FAIL" in out1
        passes_without = rc2 == 0 and "FAIL" not in out2
        meta["demo_fails_with_patch"] = fails_with
        meta["demo_passes_without_patch"] = passes_without
        meta["ran"].append(f"FST_BIN=<scratch build> bash demo.sh: with patch -> {'fails' if fails_with else 'DOES NOT FAIL'}; without -> {'passes' if passes_without else 'DOES NOT PASS: ' + out2[-300:]}")
        sh(f"patch -p1 --no-backup-if-mismatch < {patch}", cwd=f"{d}/repo")
        return finish(meta, d, patch, demo, checks, fails_with, passes_without)
    # demo with the patch
    os.makedirs(f"{d}/repo/tests", exist_ok=True)
    os.makedirs(f"{d}/repo/target", exist_ok=True)  # some demos keep scratch files under the worktree's target/
    shutil.copy(demo, f"{d}/repo/tests/{demo_name}.rs")
    rc1, out1 = sh(f"timeout -k 5 900 cargo test --offline --features levenshtein --test {demo_name} -- --test-threads=1 2>&1 | tail -15", cwd=f"{d}/repo", env=env)
    fails_with = "test result: FAILED" in out1 or "panicked" in out1
    # demo without the patch
    sh(f"patch -p1 -R --no-backup-if-mismatch < {patch}", cwd=f"{d}/repo")
    rc2, out2 = sh(f"timeout -k 5 900 cargo test --offline --features levenshtein --test {demo_name} -- --test-threads=1 2>&1 | tail -15", cwd=f"{d}/repo", env=env)
    passes_without = "test result: ok" in out2 and "FAILED" not in out2
    meta["demo_fails_with_patch"] = fails_with
    meta["demo_passes_without_patch"] = passes_without
    meta["ran"].append(f"cargo test --offline --features levenshtein --test {demo_name}: with patch -> {'fails' if fails_with else 'DOES NOT FAIL'}; without -> {'passes' if passes_without else 'DOES NOT PASS: ' + out2[-300:]}")
    # checks against the patched copy
    os.remove(f"{d}/repo/tests/{demo_name}.rs")
    sh(f"patch -p1 --no-backup-if-mismatch < {patch}", cwd=f"{d}/repo")
    return finish(meta, d, patch, demo, checks, fails_with, passes_without)

def finish(meta, d, patch, demo, checks, fails_with, passes_without):
    name = meta["name"]
    meta["checks"] = {}
    for c in checks:
        t0 = time.time()
        rc, out = sh(f"./check {c} --tier quick", cwd="/verif", env={"VERIF_REPO": f"{d}/repo", "VERIF_TARGET": f"{d}/target", "VERIF_OUT": f"{d}/out", "VERIF_SEED": "0"})
        detail = ""
        lines = out.splitlines()
        for j, l in enumerate(lines):
            if l.startswith("VIOLATION"):
                detail = " | ".join(x.strip() for x in lines[j + 1:j + 3])[:400]
                break
        meta["checks"][c] = {"exit": rc, "secs": round(time.time() - t0, 1), "first_violation": detail}
        meta["ran"].append(f"VERIF_REPO=<patched copy> ./check {c} --tier quick -> exit {rc}")
    meta["caught_by"] = [c for c, v in meta["checks"].items() if v["exit"] == 1]
    valid = meta["existing_tests_pass_with_patch"] and fails_with and passes_without
    meta["status"] = ("valid seeded change; " + ("caught by " + ",".join(meta["caught_by"]) if meta["caught_by"] else "MISSED by the listed checks")) if valid else "not a valid seeded change (see fields)"
    out_dir = f"/verif/seeded/{name}"
    os.makedirs(out_dir, exist_ok=True)
    shutil.copy(patch, f"{out_dir}/patch.diff")
    shutil.copy(demo, f"{out_dir}/demo" + os.path.splitext(demo)[1])
    json.dump(meta, open(f"{out_dir}/meta.json", "w"), indent=1)
    print(json.dumps({k: meta[k] for k in ["name", "status", "existing_tests_pass_with_patch", "demo_fails_with_patch", "demo_passes_without_patch", "checks"]}, indent=1))
    shutil.rmtree(d, ignore_errors=True)
    return 0

sys.exit(main())
