# Planted mutants for the sensitivity self-test (DESIGN.md section 8).
# Each mutant: (name, [property ids whose quick check must report it], [(file, old, new), ...])
# Applied by string replacement to a scratch copy of /repo (never to /repo).

M = []

def m(name, props, *edits):
    M.append((name, props, list(edits)))

B = "src/raw/build.rs"
N = "src/raw/node.rs"
R = "src/raw/registry.rs"
MOD = "src/raw/mod.rs"
OPS = "src/raw/ops.rs"
A = "src/automaton/mod.rs"
L = "src/automaton/levenshtein.rs"
CW = "src/raw/counting_writer.rs"
CRC = "src/raw/crc32.rs"
BY = "src/bytes.rs"
MG = "fst-bin/src/merge.rs"

# ---- C01 / C09 -------------------------------------------------------------
m("pack_size_boundary_2^56", ["C01", "C09"], (BY, "} else if n < 1 << 56 {", "} else if n <= 1 << 56 {"))
m("add_output_prefix_skips_final_output", ["C01"], (B, """        if self.node.is_final {
            self.node.final_output = prefix.cat(self.node.final_output);
        }
        for t in &mut self.node.trans {""", """        for t in &mut self.node.trans {"""))
m("registry_eq_ignores_final_output", ["C01"], (R, """            let cell1 = &mut self.cells[0];
            if !cell1.is_none() && &cell1.node == node {""", """            let cell1 = &mut self.cells[0];
            if !cell1.is_none()
                && cell1.node.is_final == node.is_final
                && cell1.node.trans == node.trans
            {"""))
m("one_trans_next_without_zero_output_test", ["C01", "C09"], (N, "if node.trans[0].addr == last_addr && node.trans[0].out.is_zero() {", "if node.trans[0].addr == last_addr {"))
m("ntrans_64_stored_in_state_byte", ["C01", "C09"], (N, "        if n <= 0b00_111111 {\n            self.0 = (self.0 & 0b11_000000) | n;", "        if n <= 0b01_000000 {\n            self.0 = (self.0 & 0b11_000000) | n;"))
m("escape_256_dropped", ["C01", "C09"], (N, """            if node.trans.len() == 256 {""", """            if node.trans.len() == 257 {"""))
m("len_incremented_on_duplicate_add", ["C01"], (B, """        if prefix_len == bs.len() {
            // If the prefix found""", """        if prefix_len == bs.len() {
            self.len += 1;
            // If the prefix found"""))
# ---- C02 ---------------------------------------------------------------------
m("index_table_reversed_in_writer", ["C02", "C09"], (N, "index[t.inp as usize] = i as u8;", "index[t.inp as usize] = (node.trans.len() - 1 - i) as u8;"))
m("contains_key_ignores_finality", ["C02"], (MOD, """                Some(i) => self.node(node.transition_addr(i)),
            }
        }
        node.is_final()""", """                Some(i) => self.node(node.transition_addr(i)),
            }
        }
        true"""))
m("reader_index_threshold_ge", ["C02", "C10"], (N, "        if node.version >= 2 && node.ntrans > TRANS_INDEX_THRESHOLD {\n            let start = node.start", "        if node.version >= 2 && node.ntrans >= TRANS_INDEX_THRESHOLD {\n            let start = node.start"))
# ---- C03 ---------------------------------------------------------------------
m("lt_behaves_like_le", ["C03"], (MOD, "Bound::Excluded(ref v) => inp >= v,", "Bound::Excluded(ref v) => inp > v,"))
m("gt_empty_emits_empty_key", ["C03"], (MOD, """            if min.is_inclusive() {
                self.empty_output = self.fst.empty_final_output();
            }""", """            self.empty_output = self.fst.empty_final_output();"""))
m("inclusive_seek_on_absent_prefix_key", ["C03"], (MOD, """            if inclusive {
                self.stack[last].trans -= 1;
                self.inp.pop();
            } else {""", """            if inclusive && self.fst.get(key).is_some() {
                self.stack[last].trans -= 1;
                self.inp.pop();
            } else {"""))
# ---- C04 ---------------------------------------------------------------------
m("seek_pushes_post_transition_state", ["C04"], (MOD, """                        out,
                        aut_state: prev_state,
                    });""", """                        out,
                        aut_state: self.aut.accept(&prev_state, b),
                    });"""))
m("empty_key_ignores_automaton", ["C04"], (MOD, """            let start = self.aut.start();
            if self.aut.is_match(&start) {""", """            let start = self.aut.start();
            if true || self.aut.is_match(&start) {"""))
m("with_state_reports_pre_transition_state", ["C04"], (MOD, "            let t = map(&next_state);", "            let t = map(&state.aut_state);"))
# ---- C05 ---------------------------------------------------------------------
m("slot_ordered_by_output_first", ["C05"], (OPS, """        (&self.input, self.output)
            .partial_cmp(&(&other.input, other.output))""", """        (self.output, &self.input)
            .partial_cmp(&(other.output, &other.input))"""))
m("intersection_counts_le", ["C05"], (OPS, "            if popped < self.heap.num_slots() {", "            if popped + 1 < self.heap.num_slots() {"))
m("difference_pops_lt_only", ["C05"], (OPS, "if self.heap.peek().map(|s| s.input() <= key).unwrap_or(false) {", "if self.heap.peek().map(|s| s.input() < key).unwrap_or(false) {"))
# ---- C06 ---------------------------------------------------------------------
m("last_updated_on_out_of_order", ["C06"], (B, """            if bs < &**last {
                return Err(Error::OutOfOrder {
                    previous: last.to_vec(),
                    got: bs.to_vec(),
                }
                .into());
            }""", """            if bs < &**last {
                let previous = last.to_vec();
                last.clear();
                last.extend_from_slice(bs);
                return Err(Error::OutOfOrder {
                    previous,
                    got: bs.to_vec(),
                }
                .into());
            }"""))
m("out_of_order_payload_swapped", ["C06"], (B, """                    previous: last.to_vec(),
                    got: bs.to_vec(),""", """                    previous: bs.to_vec(),
                    got: last.to_vec(),"""))
m("extend_iter_swallows_errors", ["C06"], (B, """        for (key, out) in iter {
            self.insert(key, out.value())?;
        }""", """        for (key, out) in iter {
            let _ = self.insert(key, out.value());
        }"""))
m("extend_stream_uses_add_for_zero_values", ["C06"], (B, """        while let Some((key, out)) = stream.next() {
            self.insert(key, out.value())?;
        }""", """        while let Some((key, out)) = stream.next() {
            if out.is_zero() {
                self.add(key)?;
            } else {
                self.insert(key, out.value())?;
            }
        }"""))
# ---- C07 / C08 ------------------------------------------------------------------
m("revert_fix_A_checksum_before_write", ["C07", "C08"], (CW, """        let n = self.wtr.write(buf)?;
        self.summer.update(&buf[..n]);""", """        self.summer.update(buf);
        let n = self.wtr.write(buf)?;"""))
m("count_whole_buffer", ["C07", "C11"], (CW, "        self.cnt += n as u64;", "        self.cnt += buf.len() as u64;"))
m("mask_constant_changed_consistently", ["C08", "C09"], (CRC, "wrapping_add(0xA282EAD8)", "wrapping_add(0xA282EAD9)"))
m("verify_ok_when_expected_zero", ["C08"], (MOD, """            Some(expected) => expected,
        };
        let mut summer = CheckSummer::new();""", """            Some(expected) => expected,
        };
        if expected == 0 {
            return Ok(());
        }
        let mut summer = CheckSummer::new();"""))
m("crc_table16_lanes_swapped", ["C08", "C09"], (CRC, """        crc = TABLE16[0][buf[15] as usize]
            ^ TABLE16[1][buf[14] as usize]""", """        crc = TABLE16[0][buf[14] as usize]
            ^ TABLE16[1][buf[15] as usize]"""))
m("verify_skips_last_body_byte", ["C08"], (MOD, "summer.update(&self.as_bytes()[..self.as_bytes().len() - 4]);", "summer.update(&self.as_bytes()[..self.as_bytes().len() - 5]);"))
# ---- C09 ---------------------------------------------------------------------
m("pack_size_nibbles_swapped_consistently", ["C09", "C10"],
  (N, "        self.0 = (self.0 & 0b0000_1111) | (size << 4);", "        self.0 = (self.0 & 0b1111_0000) | size;"),
  (N, "        ((self.0 & 0b1111_0000) >> 4) as usize\n", "        (self.0 & 0b0000_1111) as usize\n"),
  (N, "        self.0 = (self.0 & 0b1111_0000) | size;\n    }\n\n    #[inline]\n    fn output_pack_size", "        self.0 = (self.0 & 0b0000_1111) | (size << 4);\n    }\n\n    #[inline]\n    fn output_pack_size"),
  (N, "        (self.0 & 0b0000_1111) as usize\n    }\n}\n\n/// An iterator", "        ((self.0 & 0b1111_0000) >> 4) as usize\n    }\n}\n\n/// An iterator"))
m("index_threshold_64_consistently", ["C09", "C10"], (N, "const TRANS_INDEX_THRESHOLD: usize = 32;", "const TRANS_INDEX_THRESHOLD: usize = 64;"))
m("footer_order_root_then_len_consistently", ["C09", "C10"],
  (B, """        bytes::io_write_u64_le(self.len as u64, &mut self.wtr)?;
        bytes::io_write_u64_le(root_addr as u64, &mut self.wtr)?;""", """        bytes::io_write_u64_le(root_addr as u64, &mut self.wtr)?;
        bytes::io_write_u64_le(self.len as u64, &mut self.wtr)?;"""),
  (MOD, """            let last = &bytes[end - 8..];
            u64_to_usize(bytes::read_u64_le(last))
        };
        let len = {
            let last2 = &bytes[end - 16..];""", """            let last = &bytes[end - 16..];
            u64_to_usize(bytes::read_u64_le(last))
        };
        let len = {
            let last2 = &bytes[end - 8..];"""))
# ---- C10 ---------------------------------------------------------------------
m("version_1_rejected", ["C10"], (MOD, "if version == 0 || version > VERSION {", "if version < 2 || version > VERSION {"))
m("index_only_from_version_3", ["C10"], (N, "        if version >= 2 && ntrans > TRANS_INDEX_THRESHOLD {", "        if version >= 3 && ntrans > TRANS_INDEX_THRESHOLD {"),
  (N, "        if node.version >= 2 && node.ntrans > TRANS_INDEX_THRESHOLD {\n            let start = node.start", "        if node.version >= 3 && node.ntrans > TRANS_INDEX_THRESHOLD {\n            let start = node.start"))
m("verify_ok_without_checksum", ["C10"], (MOD, "None => return Err(Error::ChecksumMissing.into()),", "None => return Ok(()),"))
m("revert_fix_B_min_36_for_all", ["C10"], (MOD, "        if bytes.len() < 32 {\n            return Err(Error::Format { size: bytes.len() }.into());", "        if bytes.len() < 36 {\n            return Err(Error::Format { size: bytes.len() }.into());"))
m("v3_needs_only_32_bytes", ["C10"], (MOD, "        if version >= 3 && bytes.len() < 36 {", "        if version >= 4 && bytes.len() < 36 {"))
# ---- C11 ---------------------------------------------------------------------
m("flush_error_ignored", ["C11"], (B, "        wtr.flush()?;\n        Ok(wtr)", "        let _ = wtr.flush();\n        Ok(wtr)"))
m("index_write_error_ignored", ["C11"], (N, "            wtr.write_all(&index)?;", "            let _ = wtr.write_all(&index);"))
m("checksum_write_error_ignored", ["C11"], (B, "        bytes::io_write_u32_le(sum, &mut wtr)?;", "        let _ = bytes::io_write_u32_le(sum, &mut wtr);"))
m("footer_write_unwrap", ["C11"], (B, "        bytes::io_write_u64_le(root_addr as u64, &mut self.wtr)?;", "        bytes::io_write_u64_le(root_addr as u64, &mut self.wtr).unwrap();"))
# ---- C12 ---------------------------------------------------------------------
m("registry_hash_constant", ["C12"], (R, "        (h as usize) % self.table_size", "        (h as usize & 0) % self.table_size"))
m("registry_insert_drops_odd_addresses", ["C12"], (R, "    pub fn insert(&mut self, addr: CompiledAddr) {\n        self.addr = addr;", "    pub fn insert(&mut self, addr: CompiledAddr) {\n        if addr % 2 == 0 {\n            self.addr = addr;\n        }"))
m("registry_second_column_never_found", ["C12"], (R, "            if !cell2.is_none() && &cell2.node == node {", "            if false && !cell2.is_none() && &cell2.node == node {"))
# ---- C13 / C14 ------------------------------------------------------------------
m("builder_leaks_every_compiled_node", ["C13"], (B, "        let entry = self.registry.entry(&node);", "        std::mem::forget(node.clone());\n        let entry = self.registry.entry(&node);"))
m("stream_preallocates_per_key", ["C14"], (MOD, """        let mut rdr = StreamWithState {
            fst,
            aut,
            inp: Vec::with_capacity(16),""", """        let cap = 16 + fst.len() * 4;
        let mut rdr = StreamWithState {
            fst,
            aut,
            inp: Vec::with_capacity(cap),"""))
m("get_allocates_key_copy", ["C14"], (MOD, "    fn get(&self, key: &[u8]) -> Option<Output> {\n        let mut node = self.root();", "    fn get(&self, key: &[u8]) -> Option<Output> {\n        let key = &key.to_vec()[..];\n        let mut node = self.root();"))
m("union_keeps_every_key", ["C14"], (OPS, "        self.outs.clear();\n        self.outs.push(slot.indexed_value());\n        while let Some(slot2) = self.heap.pop_if_equal(slot.input()) {\n            self.outs.push(slot2.indexed_value());\n            self.heap.refill(slot2);\n        }\n        Some((slot.input(), &self.outs))", "        self.outs.clear();\n        self.outs.push(slot.indexed_value());\n        std::mem::forget(slot.input().to_vec());\n        while let Some(slot2) = self.heap.pop_if_equal(slot.input()) {\n            self.outs.push(slot2.indexed_value());\n            self.heap.refill(slot2);\n        }\n        Some((slot.input(), &self.outs))"))
# ---- C15 ---------------------------------------------------------------------
m("registry_hash_seeded_per_process", ["C15"], (R, "        let mut h = 14695981039346656037;", """        let mut h: u64 = 14695981039346656037 ^ {
            static S: std::sync::OnceLock<u64> = std::sync::OnceLock::new();
            *S.get_or_init(|| {
                use std::hash::{BuildHasher, Hasher};
                std::collections::hash_map::RandomState::new()
                    .build_hasher()
                    .finish()
            })
        };"""))
# ---- C16 ---------------------------------------------------------------------
m("get_key_take_while_lt", ["C16"], (MOD, ".take_while(|t| t.out.value() <= value)", ".take_while(|t| t.out.value() < value)"))
m("revert_fix_C", ["C16"], (MOD, "        while !(node.is_final() && node.final_output().value() == value) {", "        while value != 0 || !node.is_final() {"))
# ---- C17 ---------------------------------------------------------------------
m("revert_fix_D", ["C17"], (L, "                if overwrite {\n                    // The transition being replaced", "                if false {\n                    // The transition being replaced"))
m("lev_is_match_uses_min", ["C17"], (L, "        state.last().map(|&n| n <= self.dist).unwrap_or(false)", "        state.iter().min().map(|&n| n <= self.dist).unwrap_or(false)"))
m("lev_limit_checked_before_last_state", ["C17"], (L, "            if self.dfa.states.len() > state_limit {", "            if self.dfa.states.len() > state_limit + 1 {"))
# ---- C18 ---------------------------------------------------------------------
m("complement_does_not_swap_hints", ["C18", "C04"], (A, "        !self.0.will_always_match(&state.0)\n", "        self.0.can_match(&state.0)\n"))
m("union_can_match_and", ["C18", "C04"], (A, "        self.0.can_match(&state.0) || self.1.can_match(&state.1)", "        self.0.can_match(&state.0) && self.1.can_match(&state.1)"))
m("checksum_field_zero_accepted", ["C08"], (MOD, """        if expected == got {
            return Ok(());
        }""", """        if expected == got || expected == got.rotate_left(15) {
            return Ok(());
        }"""))
# (sound weakenings, expected to be missed: kept as negative controls -- a check that fired on them would be a false alarm)
m("union_will_always_match_and", ["C18"], (A, """        self.0.will_always_match(&state.0)
            || self.1.will_always_match(&state.1)""", """        self.0.will_always_match(&state.0)
            && self.1.will_always_match(&state.1)"""))
m("intersection_will_always_match_or", ["C18"], (A, """        self.0.will_always_match(&state.0)
            && self.1.will_always_match(&state.1)""", """        self.0.will_always_match(&state.0)
            || self.1.will_always_match(&state.1)"""))
m("intersection_can_match_or", ["C18", "C04"], (A, "        self.0.can_match(&state.0) && self.1.can_match(&state.1)", "        self.0.can_match(&state.0) || self.1.can_match(&state.1)"))
m("starts_with_not_latched_at_start", ["C18", "C04"], (A, """            let inner = self.0.start();
            if self.0.is_match(&inner) {
                StartsWithStateKind::Done""", """            let inner = self.0.start();
            if false && self.0.is_match(&inner) {
                StartsWithStateKind::Done"""))
m("subsequence_will_always_match_one_early", ["C18"], (A, """    fn will_always_match(&self, &state: &usize) -> bool {
        state == self.subseq.len()""", """    fn will_always_match(&self, &state: &usize) -> bool {
        state + 1 >= self.subseq.len()"""))
m("str_can_match_after_overrun", ["C18"], (A, """    fn can_match(&self, pos: &Option<usize>) -> bool {
        pos.is_some()""", """    fn can_match(&self, pos: &Option<usize>) -> bool {
        pos.map(|p| p < self.string.len()).unwrap_or(false)"""))
# ---- C19 ---------------------------------------------------------------------
m("revert_fix_E_min_from_zero", ["C19"], (MG, ".fold(outputs[0].value, |merged, iv| {", ".fold(0 * outputs[0].value, |merged, iv| {"))
m("revert_fix_E_in_batch_repeats_dropped", ["C19"], (MG, "                        last.1 = value_merger(last.1, v);", "                        let _ = value_merger(last.1, v);"))
m("union_file_name_without_generation", ["C19"], (MG, 'let file_name = format!("union-gen{}-batch{}", self.gen, self.index);', 'let file_name = format!("union-batch{}-{}", self.index, self.gen * 0);'))
m("last_partial_batch_dropped", ["C19"], (MG, "        if !batch.is_empty() {\n", "        if batch.len() > 1 {\n"))
# ---- C20 ---------------------------------------------------------------------
m("footer_sliced_before_length_check", ["C20"], (MOD, "        let bytes = data.as_ref();\n        // The smallest FST", "        let bytes = data.as_ref();\n        let _tail = &bytes[bytes.len() - 16..];\n        // The smallest FST"))
m("unsafe_read_u32", ["C20"], (BY, "    u32::from_le_bytes(slice[..4].try_into().unwrap())", "    assert!(slice.len() >= 4);\n    u32::from_le_bytes(unsafe { *(slice.as_ptr() as *const [u8; 4]) })"))
m("verify_slices_fixed_36", ["C20", "C08"], (MOD, "summer.update(&self.as_bytes()[..self.as_bytes().len() - 4]);", "summer.update(&self.as_bytes()[..self.as_bytes().len().max(40) - 4]);"))

# ---- defect G (fixed by 31bb6f9) reintroduced: zero-valued keys skip the output-redistributing walk
m("zero_output_keys_skip_prefix_walk(defect G)", ["C01"], (B, """        let (prefix_len, out) =
            self.unfinished.find_common_prefix_and_set_output(bs, out);""", """        let (prefix_len, out) = if out.is_zero() {
            (
                bs.iter()
                    .zip(&self.unfinished.stack)
                    .take_while(|&(&b, ref node)| {
                        node.last.as_ref().map(|t| t.inp == b).unwrap_or(false)
                    })
                    .count(),
                out,
            )
        } else {
            self.unfinished.find_common_prefix_and_set_output(bs, out)
        };"""))
