#!/usr/bin/env python3
"""Sensitivity self-test: apply each planted mutant to a scratch copy of /repo
(outside /repo and /verif), check that it compiles and passes the repository's
own tests with the guard off, then run the quick tier of the checks that are
supposed to report it. Writes selftest/RESULTS.md. Scratch copies and their
build output are removed at the end.

usage: selftest/run.py [--slots N] [--only substring] [--keep]
"""
import os, sys, subprocess, shutil, json, time, threading, queue
sys.path.insert(0, os.path.dirname(__file__))
from mutants import M

ROOT = "/tmp/fst-selftest"
slots = 5
only = None
args = sys.argv[1:]
keep = "--keep" in args
if "--slots" in args:
    slots = int(args[args.index("--slots") + 1])
if "--only" in args:
    only = args[args.index("--only") + 1]

def sh(cmd, cwd=None, env=None, timeout=3000):
    e = dict(os.environ)
    if env:
        e.update(env)
    p = subprocess.run(cmd, shell=True, cwd=cwd, env=e, capture_output=True, text=True, timeout=timeout)
    return p.returncode, p.stdout + p.stderr

def prepare(slot):
    d = f"{ROOT}/slot{slot}"
    os.makedirs(d, exist_ok=True)
    sh(f"rsync -a --delete --exclude target --exclude .git /repo/ {d}/repo/")
    return d

def run_mutant(slot, name, props, edits):
    d = prepare(slot)
    res = {"name": name, "props": props}
    for (f, old, new) in edits:
        p = f"{d}/repo/{f}"
        s = open(p).read()
        if s.count(old) != 1:
            res["status"] = f"does-not-apply ({f}: {s.count(old)} matches)"
            return res
        open(p, "w").write(s.replace(old, new))
    # baseline tests, guard off
    # a mutant may make one of the repository's tests spin: bound it (a timeout counts as "fails")
    rc, out = sh("timeout -k 5 400 cargo test --workspace --no-fail-fast --offline 2>&1 | grep -E '^test result|^error|FAILED|failed' | head -20",
                 cwd=f"{d}/repo", env={"CARGO_TARGET_DIR": f"{d}/target-tests", "RUSTFLAGS": ""})
    if "test result" not in out and "error" not in out:
        out += "\nFAILED (timeout)"
    if "error" in out and "test result" not in out:
        res["status"] = "does-not-compile"
        res["detail"] = out[-400:]
        return res
    failed = [l for l in out.splitlines() if "test result" in l and " 0 failed" not in l]
    res["baseline"] = "fails" if failed or "FAILED" in out else "passes"
    res["checks"] = {}
    for pid in props:
        t0 = time.time()
        rc, out = sh(f"./check {pid} --tier quick", cwd="/verif",
                     env={"VERIF_REPO": f"{d}/repo", "VERIF_TARGET": f"{d}/target", "VERIF_OUT": f"{d}/out", "VERIF_SEED": "0"})
        viol = [l for l in out.splitlines() if l.startswith("VIOLATION")]
        detail = ""
        for i, l in enumerate(out.splitlines()):
            if l.startswith("VIOLATION"):
                detail = " | ".join(x.strip() for x in out.splitlines()[i + 1:i + 3])[:300]
                break
        res["checks"][pid] = {"rc": rc, "violations": len(viol), "secs": round(time.time() - t0, 1), "detail": detail,
                              "inconclusive": [l for l in out.splitlines() if "INCONCLUSIVE" in l or "inconclusive" in l][:2]}
    caught = any(c["rc"] == 1 for c in res["checks"].values())
    res["status"] = "caught" if caught else "MISSED"
    return res

def worker(slot, q, results):
    while True:
        try:
            item = q.get_nowait()
        except queue.Empty:
            return
        name, props, edits = item
        try:
            r = run_mutant(slot, name, props, edits)
        except Exception as e:
            r = {"name": name, "props": props, "status": f"runner-error {e}"}
        results.append(r)
        print(f"[{len(results)}] {r['name']}: {r['status']} baseline={r.get('baseline')} " +
              " ".join(f"{k}:rc{v['rc']}({v['secs']}s)" for k, v in r.get("checks", {}).items()), flush=True)

def main():
    q = queue.Queue()
    for item in M:
        if only and not any(o in item[0] for o in only.split(",")):
            continue
        q.put(item)
    results = []
    threads = [threading.Thread(target=worker, args=(i, q, results)) for i in range(slots)]
    # limit per-check parallelism so that slots do not oversubscribe the machine
    os.environ["VERIF_THREADS"] = str(max(2, 16 // slots))
    for t in threads:
        t.start()
    for t in threads:
        t.join()
    # merge with earlier results when only a subset was run
    if only and os.path.exists("/verif/selftest/results.json"):
        old = json.load(open("/verif/selftest/results.json"))
        names = {r["name"] for r in results}
        results.extend(r for r in old if r["name"] not in names and r["name"] in [m[0] for m in M])
    results.sort(key=lambda r: [m[0] for m in M].index(r["name"]))
    json.dump(results, open("/verif/selftest/results.json", "w"), indent=1)
    with open("/verif/selftest/RESULTS.md", "w") as f:
        f.write("# Planted-mutant sensitivity results\n\n")
        f.write("Each mutant is applied to a scratch copy of /repo, must compile, is run against the repository's own tests (guard off), and then against the quick tier of the listed checks (VERIF_SEED=0). `caught` = at least one listed check exited 1 with a VIOLATION line.\n\n")
        f.write("| mutant | baseline tests | status | per check |\n|---|---|---|---|\n")
        for r in results:
            per = "; ".join(f"{k}: rc={v['rc']} {v['secs']}s {('— ' + v['detail']) if v['detail'] else ''}" for k, v in r.get("checks", {}).items())
            f.write(f"| {r['name']} | {r.get('baseline', '-')} | {r['status']} | {per} |\n")
        n = len(results)
        caught = sum(1 for r in results if r["status"] == "caught")
        valid = sum(1 for r in results if r["status"] in ("caught", "MISSED"))
        surv = sum(1 for r in results if r["status"] in ("caught", "MISSED") and r.get("baseline") == "passes")
        caught_surv = sum(1 for r in results if r["status"] == "caught" and r.get("baseline") == "passes")
        f.write(f"\n{n} mutants; {valid} applied and compiled; {caught} of them caught. {surv} also pass the repository's own tests (invisible to them); {caught_surv} of those caught.\n")
    if not keep:
        shutil.rmtree(ROOT, ignore_errors=True)

main()
