//! Driving libFuzzer campaigns (thorough tier) from the harness: fresh
//! corpus directory seeded from /verif/corpus, fixed number of runs, seed
//! from VERIF_SEED; crashes are re-checked through the in-process replay
//! path before they are reported.

use std::path::PathBuf;
use std::process::Command;

use serde_json::json;

use crate::engine::{out_dir, Engine, Fail, VERIF_DIR};

pub fn campaign(e: &Engine, target: &str, runs: u64, max_len: usize) {
    if std::env::var("VERIF_NO_FUZZ").is_ok() {
        e.extra(&format!("fuzz_{}", target), json!({"skipped": "VERIF_NO_FUZZ set"}));
        return;
    }
    let t0 = std::time::Instant::now();
    let out = out_dir();
    let corpus = PathBuf::from(format!("{}/work/fuzz/{}-{}-{}", out, e.prop, target, e.seed));
    let _ = std::fs::remove_dir_all(&corpus);
    if std::fs::create_dir_all(&corpus).is_err() {
        e.inconclusive(format!("cannot create fuzz corpus dir {:?}", corpus));
        return;
    }
    // seeds: the generic structured seeds plus the target's own committed corpus (small inputs
    // distilled with -merge=1 from a long background campaign on the pinned tree)
    for seed_dir in ["structured", target] {
        if seed_dir == "structured" && target == "open_verify" {
            continue;
        }
        if let Ok(rd) = std::fs::read_dir(format!("{}/corpus/{}", VERIF_DIR, seed_dir)) {
            for f in rd.flatten() {
                let _ = std::fs::copy(f.path(), corpus.join(f.file_name()));
            }
        }
    }
    let found = format!("{}/replays/found", out);
    let _ = std::fs::create_dir_all(&found);
    let prefix = format!("{}/{}-fuzz-{}-", found, e.prop, target);
    let target_dir = std::env::var("VERIF_TARGET").unwrap_or_else(|_| format!("{}/target", VERIF_DIR));
    let seed = if e.seed == 0 { 1 } else { e.seed % 0x7fff_ffff + 1 };
    let output = Command::new("cargo")
        .current_dir(format!("{}/fuzz", VERIF_DIR))
        .env("CARGO_NET_OFFLINE", "true")
        .env("RUSTFLAGS", "--cfg burntsushi_fst_verif")
        .args(["+nightly", "fuzz", "run", "--fuzz-dir"])
        .arg(format!("{}/fuzz", VERIF_DIR))
        .arg("--target-dir")
        .arg(format!("{}/fuzz", target_dir))
        .arg(target)
        .arg(&corpus)
        .arg("--")
        .arg(format!("-runs={}", runs))
        .arg(format!("-seed={}", seed))
        .arg("-len_control=0")
        .arg(format!("-max_len={}", max_len))
        .arg("-print_final_stats=1")
        .arg("-report_slow_units=300")
        .arg("-timeout=600")
        .arg("-rss_limit_mb=8000")
        .arg(format!("-artifact_prefix={}", prefix))
        .output();
    let output = match output {
        Ok(o) => o,
        Err(err) => {
            e.inconclusive(format!("cannot run cargo fuzz: {}", err));
            return;
        }
    };
    let text = String::from_utf8_lossy(&output.stderr).to_string() + &String::from_utf8_lossy(&output.stdout);
    let stat = |name: &str| -> u64 {
        text.lines().find_map(|l| l.strip_prefix(&format!("stat::{}:", name)).and_then(|v| v.trim().parse().ok())).unwrap_or(0)
    };
    let executed = stat("number_of_executed_units");
    let new_units = stat("new_units_added");
    // artifacts written by this campaign
    let mut artifacts: Vec<PathBuf> = vec![];
    if let Ok(rd) = std::fs::read_dir(&found) {
        for f in rd.flatten() {
            let name = f.file_name().to_string_lossy().to_string();
            if name.starts_with(&format!("{}-fuzz-{}-", e.prop, target)) {
                if name.contains("-crash-") {
                    artifacts.push(f.path());
                } else {
                    // slow-unit / timeout / oom artifacts say nothing about the property
                    let _ = std::fs::remove_file(f.path());
                }
            }
        }
    }
    let mut confirmed = 0;
    for a in &artifacts {
        let data = std::fs::read(a).unwrap_or_default();
        match crate::fuzzdec::run_target(target, &data) {
            Some(Err(fail)) => {
                confirmed += 1;
                // report with the artifact itself as the replay file
                println!("VIOLATION property={} replay={}", e.prop, a.display());
                println!("  subcheck=fuzz-{} signature={}", target, fail.sig);
                println!("  {}", crate::engine::truncate(&fail.msg, 1500));
                e.note_external_violation(&format!("fuzz-{}", target), json!({"artifact": a.display().to_string()}), Fail { msg: fail.msg, sig: fail.sig }, a.clone());
            }
            _ => {
                e.inconclusive(format!("fuzz target {} produced artifact {:?} that does not reproduce in the in-process replay", target, a));
            }
        }
    }
    if !output.status.success() && artifacts.is_empty() {
        let tail: Vec<&str> = text.lines().rev().take(6).collect();
        e.inconclusive(format!("cargo fuzz run {} failed without an artifact: {}", target, tail.into_iter().rev().collect::<Vec<_>>().join(" | ")));
    }
    let corpus_size = std::fs::read_dir(&corpus).map(|r| r.count()).unwrap_or(0);
    e.add_evaluations(executed);
    e.extra(
        &format!("fuzz_{}", target),
        json!({"engine": "libFuzzer (cargo-fuzz, ASan, debug assertions)", "runs_requested": runs, "executed": executed, "new_units_added": new_units,
               "corpus_files_after": corpus_size, "artifacts": artifacts.len(), "confirmed_violations": confirmed, "seed": seed, "wall_s": t0.elapsed().as_secs_f64()}),
    );
    eprintln!("[{}] fuzz:{:<22} executed={} new_units={} artifacts={} {:.1}s", e.prop, target, executed, new_units, artifacts.len(), t0.elapsed().as_secs_f64());
    let _ = std::fs::remove_dir_all(&corpus);
}
