//! Shared model-side oracles: probes, bounds, range filters and the query
//! suite that compares any opened FST with a model.

use std::collections::BTreeMap;
use fst::raw::Fst;
use fst::{IntoStreamer, Streamer};
use proptest::prelude::*;
use serde_json::{json, Value};

use crate::engine::{hex, show, unhex, CheckResult};
use crate::gen::{Model, Pairs};

// ---------------------------------------------------------------------------
// Bounds

#[derive(Clone, Copy, Debug, PartialEq, Eq, Hash)]
pub enum Kind {
    Ge,
    Gt,
    Le,
    Lt,
}

impl Kind {
    pub fn name(self) -> &'static str {
        match self {
            Kind::Ge => "ge",
            Kind::Gt => "gt",
            Kind::Le => "le",
            Kind::Lt => "lt",
        }
    }
    pub fn from_name(s: &str) -> Option<Kind> {
        Some(match s {
            "ge" => Kind::Ge,
            "gt" => Kind::Gt,
            "le" => Kind::Le,
            "lt" => Kind::Lt,
            _ => return None,
        })
    }
    pub fn all() -> [Kind; 4] {
        [Kind::Ge, Kind::Gt, Kind::Le, Kind::Lt]
    }
}

pub type Bounds = Vec<(Kind, Vec<u8>)>;

pub fn bounds_json(b: &Bounds) -> Value {
    Value::Array(b.iter().map(|(k, key)| json!([k.name(), hex(key)])).collect())
}

pub fn bounds_from_json(v: &Value) -> Option<Bounds> {
    v.as_array()?
        .iter()
        .map(|x| {
            let a = x.as_array()?;
            Some((Kind::from_name(a.get(0)?.as_str()?)?, unhex(a.get(1)?.as_str()?)?))
        })
        .collect()
}

pub fn bounds_show(b: &Bounds) -> String {
    b.iter().map(|(k, key)| format!(".{}({})", k.name(), show(key))).collect::<Vec<_>>().join("")
}

/// The effective lower and upper bound of a history (last of each kind of
/// bound — lower or upper — wins).
pub fn effective(b: &Bounds) -> (Option<(bool, &[u8])>, Option<(bool, &[u8])>) {
    let mut lo = None;
    let mut hi = None;
    for (k, key) in b {
        match k {
            Kind::Ge => lo = Some((true, &key[..])),
            Kind::Gt => lo = Some((false, &key[..])),
            Kind::Le => hi = Some((true, &key[..])),
            Kind::Lt => hi = Some((false, &key[..])),
        }
    }
    (lo, hi)
}

pub fn in_bounds(key: &[u8], b: &Bounds) -> bool {
    let (lo, hi) = effective(b);
    if let Some((incl, l)) = lo {
        if incl {
            if key < l {
                return false;
            }
        } else if key <= l {
            return false;
        }
    }
    if let Some((incl, h)) = hi {
        if incl {
            if key > h {
                return false;
            }
        } else if key >= h {
            return false;
        }
    }
    true
}

pub fn model_range(pairs: &Pairs, b: &Bounds) -> Pairs {
    pairs.iter().filter(|(k, _)| in_bounds(k, b)).cloned().collect()
}

/// Apply a bound history to a raw stream builder.
pub fn apply_raw<'f, A: fst::Automaton>(
    mut sb: fst::raw::StreamBuilder<'f, A>,
    b: &Bounds,
) -> fst::raw::StreamBuilder<'f, A> {
    for (k, key) in b {
        sb = match k {
            Kind::Ge => sb.ge(key),
            Kind::Gt => sb.gt(key),
            Kind::Le => sb.le(key),
            Kind::Lt => sb.lt(key),
        };
    }
    sb
}

pub fn apply_map<'f, A: fst::Automaton>(
    mut sb: fst::map::StreamBuilder<'f, A>,
    b: &Bounds,
) -> fst::map::StreamBuilder<'f, A> {
    for (k, key) in b {
        sb = match k {
            Kind::Ge => sb.ge(key),
            Kind::Gt => sb.gt(key),
            Kind::Le => sb.le(key),
            Kind::Lt => sb.lt(key),
        };
    }
    sb
}

pub fn apply_set<'f, A: fst::Automaton>(
    mut sb: fst::set::StreamBuilder<'f, A>,
    b: &Bounds,
) -> fst::set::StreamBuilder<'f, A> {
    for (k, key) in b {
        sb = match k {
            Kind::Ge => sb.ge(key),
            Kind::Gt => sb.gt(key),
            Kind::Le => sb.le(key),
            Kind::Lt => sb.lt(key),
        };
    }
    sb
}

pub fn apply_raw_state<'f, A: fst::Automaton>(
    mut sb: fst::raw::StreamWithStateBuilder<'f, A>,
    b: &Bounds,
) -> fst::raw::StreamWithStateBuilder<'f, A> {
    for (k, key) in b {
        sb = match k {
            Kind::Ge => sb.ge(key),
            Kind::Gt => sb.gt(key),
            Kind::Le => sb.le(key),
            Kind::Lt => sb.lt(key),
        };
    }
    sb
}

pub fn apply_map_state<'f, A: fst::Automaton>(
    mut sb: fst::map::StreamWithStateBuilder<'f, A>,
    b: &Bounds,
) -> fst::map::StreamWithStateBuilder<'f, A> {
    for (k, key) in b {
        sb = match k {
            Kind::Ge => sb.ge(key),
            Kind::Gt => sb.gt(key),
            Kind::Le => sb.le(key),
            Kind::Lt => sb.lt(key),
        };
    }
    sb
}

pub fn apply_set_state<'f, A: fst::Automaton>(
    mut sb: fst::set::StreamWithStateBuilder<'f, A>,
    b: &Bounds,
) -> fst::set::StreamWithStateBuilder<'f, A> {
    for (k, key) in b {
        sb = match k {
            Kind::Ge => sb.ge(key),
            Kind::Gt => sb.gt(key),
            Kind::Le => sb.le(key),
            Kind::Lt => sb.lt(key),
        };
    }
    sb
}

/// get_key / get_key_into against the inverse of a model with strictly increasing values:
/// up to `max` evenly spaced stored values, each with its neighbours, plus 0 and u64::MAX.
pub fn check_get_key(bytes: &[u8], pairs: &Pairs, max: usize) -> CheckResult {
    let f = match Fst::new(bytes) {
        Ok(f) => f,
        Err(e) => vfail!("open-failed", "bytes do not open: {:?}", e),
    };
    let inverse: BTreeMap<u64, &Vec<u8>> = pairs.iter().map(|(k, v)| (*v, k)).collect();
    let step = (pairs.len() / max.max(1)).max(1);
    let mut queries: Vec<u64> = vec![0, u64::MAX];
    for (_, v) in pairs.iter().step_by(step) {
        queries.push(*v);
        queries.push(v.wrapping_add(1));
        queries.push(v.wrapping_sub(1));
    }
    if let Some(l) = pairs.last() {
        queries.push(l.1);
    }
    queries.sort();
    queries.dedup();
    for q in queries {
        let want = inverse.get(&q).map(|k| (*k).clone());
        let got = f.get_key(q);
        vensure!(got == want, "get-key-mismatch", "get_key({}) = {:?} but the key with that value is {:?} ({} keys)", q, got.as_ref().map(|k| show(k)), want.as_ref().map(|k| show(k)), pairs.len());
        let mut buf = b"x".to_vec();
        let ok = f.get_key_into(q, &mut buf);
        match &want {
            Some(k) => vensure!(ok && buf[..1] == b"x"[..] && buf[1..] == k[..], "get-key-into", "get_key_into({}) returned {} leaving {} but must append {}", q, ok, show(&buf), show(k)),
            None => vensure!(!ok, "get-key-into", "get_key_into({}) returned true but no key has that value", q),
        }
    }
    Ok(())
}

/// A bound key described relative to the model, resolved at check time so
/// that the generated selector shrinks independently of the key set.
#[derive(Clone, Debug)]
pub enum KeySel {
    Empty,
    Key(u16),
    Prefix(u16, u16),
    AppendZero(u16),
    AppendFF(u16),
    AppendByte(u16, u8),
    BumpLast(u16),
    DecLast(u16),
    DropLast(u16),
    Diverge(u16, u16, u8),
    Random(Vec<u8>),
}

pub fn keysel_strategy() -> impl Strategy<Value = KeySel> {
    prop_oneof![
        1 => Just(KeySel::Empty),
        4 => any::<u16>().prop_map(KeySel::Key),
        3 => (any::<u16>(), any::<u16>()).prop_map(|(a, b)| KeySel::Prefix(a, b)),
        2 => any::<u16>().prop_map(KeySel::AppendZero),
        1 => any::<u16>().prop_map(KeySel::AppendFF),
        1 => (any::<u16>(), any::<u8>()).prop_map(|(a, b)| KeySel::AppendByte(a, b)),
        2 => any::<u16>().prop_map(KeySel::BumpLast),
        2 => any::<u16>().prop_map(KeySel::DecLast),
        1 => any::<u16>().prop_map(KeySel::DropLast),
        3 => (any::<u16>(), any::<u16>(), prop_oneof![any::<u8>(), Just(0u8), Just(255u8)])
            .prop_map(|(a, b, c)| KeySel::Diverge(a, b, c)),
        1 => proptest::collection::vec(any::<u8>(), 0..6).prop_map(KeySel::Random),
    ]
}

/// Monotone index mapping (so that shrinking the selector shrinks the index).
pub fn pick(i: u16, len: usize) -> usize {
    ((i as usize) * len) >> 16
}

pub fn resolve(sel: &KeySel, pairs: &Pairs) -> Vec<u8> {
    if pairs.is_empty() {
        return match sel {
            KeySel::Random(v) => v.clone(),
            KeySel::AppendByte(_, b) | KeySel::Diverge(_, _, b) => vec![*b],
            KeySel::AppendZero(_) => vec![0],
            _ => vec![],
        };
    }
    let key = |i: &u16| pairs[pick(*i, pairs.len())].0.clone();
    match sel {
        KeySel::Empty => vec![],
        KeySel::Key(i) => key(i),
        KeySel::Prefix(i, l) => {
            let k = key(i);
            let n = pick(*l, k.len() + 1);
            k[..n].to_vec()
        }
        KeySel::AppendZero(i) => {
            let mut k = key(i);
            k.push(0);
            k
        }
        KeySel::AppendFF(i) => {
            let mut k = key(i);
            k.push(0xff);
            k
        }
        KeySel::AppendByte(i, b) => {
            let mut k = key(i);
            k.push(*b);
            k
        }
        KeySel::BumpLast(i) => {
            let mut k = key(i);
            if let Some(l) = k.last_mut() {
                *l = l.wrapping_add(1);
            }
            k
        }
        KeySel::DecLast(i) => {
            let mut k = key(i);
            if let Some(l) = k.last_mut() {
                *l = l.wrapping_sub(1);
            }
            k
        }
        KeySel::DropLast(i) => {
            let mut k = key(i);
            k.pop();
            k
        }
        KeySel::Diverge(i, p, b) => {
            let k = key(i);
            let n = pick(*p, k.len() + 1);
            let mut out = k[..n].to_vec();
            out.push(*b);
            out
        }
        KeySel::Random(v) => v.clone(),
    }
}

pub fn bounds_sel_strategy(max: usize) -> impl Strategy<Value = Vec<(u8, KeySel)>> {
    proptest::collection::vec((0u8..4, keysel_strategy()), 0..=max)
}

pub fn resolve_bounds(sels: &[(u8, KeySel)], pairs: &Pairs) -> Bounds {
    sels.iter().map(|(k, s)| (Kind::all()[*k as usize % 4], resolve(s, pairs))).collect()
}

// ---------------------------------------------------------------------------
// Probes

pub struct ProbeStats {
    pub absent_prefix: bool,
    pub absent_extension: bool,
    pub absent_subst: bool,
}

/// Probes constructed from the model. `all_bytes`: use all 255 replacement
/// bytes for substitutions (small scopes) instead of 4.
pub fn probes(pairs: &Pairs, all_bytes: bool, extra: &[Vec<u8>]) -> (Vec<Vec<u8>>, ProbeStats) {
    let model: Model = pairs.iter().cloned().collect();
    let mut out: Vec<Vec<u8>> = vec![vec![]];
    let mut st = ProbeStats { absent_prefix: false, absent_extension: false, absent_subst: false };
    let budget_heavy = pairs.iter().map(|p| p.0.len()).sum::<usize>() < 4000;
    for (k, _) in pairs {
        out.push(k.clone());
        // proper prefixes
        if budget_heavy || k.len() < 64 {
            for n in 0..k.len() {
                let p = k[..n].to_vec();
                if !model.contains_key(&p) {
                    st.absent_prefix = true;
                }
                out.push(p);
            }
        } else {
            for n in [0, 1, k.len() / 2, k.len() - 1] {
                out.push(k[..n].to_vec());
            }
        }
        // one-byte extensions
        let last = k.last().copied().unwrap_or(b'a');
        let ext: Vec<u8> = if all_bytes {
            (0..=255u8).collect()
        } else {
            vec![0, last, last.wrapping_add(1), last.wrapping_sub(1), 0xff, b'a']
        };
        for b in ext {
            let mut p = k.clone();
            p.push(b);
            if !model.contains_key(&p) {
                st.absent_extension = true;
            }
            out.push(p);
        }
        // substitutions
        let positions: Vec<usize> = if budget_heavy || k.len() < 64 {
            (0..k.len()).collect()
        } else {
            vec![0, 1, k.len() / 2, k.len() - 2, k.len() - 1]
        };
        for pos in positions {
            let orig = k[pos];
            let reps: Vec<u8> = if all_bytes {
                (0..=255u8).filter(|&b| b != orig).collect()
            } else {
                vec![orig ^ 1, orig.wrapping_add(1), orig.wrapping_sub(1), 0, 0xff]
            };
            for b in reps {
                if b == orig {
                    continue;
                }
                let mut p = k.clone();
                p[pos] = b;
                if !model.contains_key(&p) {
                    st.absent_subst = true;
                }
                out.push(p);
            }
        }
    }
    // all 256 bytes at nodes with a large fan-out (index table on/off)
    let mut counts: std::collections::HashMap<&[u8], usize> = std::collections::HashMap::new();
    let mut prev: Option<&[u8]> = None;
    for (k, _) in pairs {
        let lcp = prev.map(|p| p.iter().zip(k.iter()).take_while(|(a, b)| a == b).count()).unwrap_or(0);
        for d in lcp.min(k.len())..k.len() {
            *counts.entry(&k[..d]).or_insert(0) += 1;
        }
        prev = Some(k);
    }
    let mut wide: Vec<&[u8]> = counts.iter().filter(|(_, &c)| c >= 8).map(|(p, _)| *p).collect();
    wide.sort();
    for p in wide.into_iter().take(4) {
        for b in 0..=255u8 {
            let mut q = p.to_vec();
            q.push(b);
            out.push(q.clone());
            q.push(b'a');
            out.push(q);
        }
    }
    out.extend(extra.iter().cloned());
    out.sort();
    out.dedup();
    (out, st)
}

/// Point-lookup oracle over all lookup APIs.
pub fn check_lookups(bytes: &[u8], pairs: &Pairs, probes: &[Vec<u8>]) -> CheckResult {
    let model: Model = pairs.iter().cloned().collect();
    let f = match Fst::new(bytes) {
        Ok(f) => f,
        Err(e) => vfail!("open-failed", "bytes do not open: {:?}", e),
    };
    let m = fst::Map::new(bytes).map_err(|e| crate::engine::Fail::new("open-failed", format!("{:?}", e)))?;
    let s = fst::Set::new(bytes).map_err(|e| crate::engine::Fail::new("open-failed", format!("{:?}", e)))?;
    for p in probes {
        let want = model.get(p).copied();
        let got = m.get(p);
        vensure!(got == want, "get-mismatch", "Map::get({}) = {:?}, model says {:?}; keys {}", show(p), got, want, keys_show(pairs));
        let got = f.get(p).map(|o| o.value());
        vensure!(got == want, "get-mismatch", "raw get({}) = {:?}, model says {:?}; keys {}", show(p), got, want, keys_show(pairs));
        let c = m.contains_key(p);
        vensure!(c == want.is_some(), "contains-mismatch", "Map::contains_key({}) = {}, model says {}; keys {}", show(p), c, want.is_some(), keys_show(pairs));
        let c = s.contains(p);
        vensure!(c == want.is_some(), "contains-mismatch", "Set::contains({}) = {}, model says {}; keys {}", show(p), c, want.is_some(), keys_show(pairs));
        let c = f.contains_key(p);
        vensure!(c == want.is_some(), "contains-mismatch", "raw contains_key({}) = {}, model says {}; keys {}", show(p), c, want.is_some(), keys_show(pairs));
    }
    Ok(())
}

pub fn keys_show(pairs: &Pairs) -> String {
    let s: Vec<String> = pairs
        .iter()
        .take(24)
        .map(|(k, v)| format!("{}={}", show(&k[..k.len().min(32)]), v))
        .collect();
    format!("[{}{}]", s.join(", "), if pairs.len() > 24 { ", …" } else { "" })
}

/// Range oracle over the three front ends.
pub fn check_range(bytes: &[u8], pairs: &Pairs, b: &Bounds, full: bool) -> CheckResult {
    let want = model_range(pairs, b);
    let f = match Fst::new(bytes) {
        Ok(f) => f,
        Err(e) => vfail!("open-failed", "bytes do not open: {:?}", e),
    };
    let mut s = apply_raw(f.range(), b).into_stream();
    let mut got: Pairs = vec![];
    while let Some((k, v)) = s.next() {
        got.push((k.to_vec(), v.value()));
        if got.len() > pairs.len() + 2 {
            break;
        }
    }
    vensure!(got == want, "range-mismatch", "Fst::range(){} yields {} but the model filter gives {}; keys {}", bounds_show(b), keys_show(&got), keys_show(&want), keys_show(pairs));
    vensure!(s.next().is_none() && s.next().is_none(), "range-restart", "range stream{} yields items after the end", bounds_show(b));
    if !full {
        return Ok(());
    }
    let m = fst::Map::new(bytes).map_err(|e| crate::engine::Fail::new("open-failed", format!("{:?}", e)))?;
    let got = apply_map(m.range(), b).into_stream().into_byte_vec();
    vensure!(got == want, "range-mismatch", "Map::range(){} yields {} but the model filter gives {}; keys {}", bounds_show(b), keys_show(&got), keys_show(&want), keys_show(pairs));
    let gotv = apply_map(m.range(), b).into_stream().into_values();
    vensure!(gotv == want.iter().map(|x| x.1).collect::<Vec<_>>(), "range-mismatch", "Map::range(){} into_values mismatch", bounds_show(b));
    let st = fst::Set::new(bytes).map_err(|e| crate::engine::Fail::new("open-failed", format!("{:?}", e)))?;
    let gotk = apply_set(st.range(), b).into_stream().into_bytes();
    vensure!(gotk == want.iter().map(|x| x.0.clone()).collect::<Vec<_>>(), "range-mismatch", "Set::range(){} yields a different key sequence than the model; keys {}", bounds_show(b), keys_show(pairs));
    let got = apply_raw(f.range(), b).into_stream().into_byte_vec();
    vensure!(got == want, "range-mismatch", "raw into_byte_vec range mismatch {}", bounds_show(b));
    Ok(())
}

/// The query suite used by C07, C10, C19: full stream, len, lookups on
/// model-derived probes, a fixed family of ranges, Str/Subsequence searches
/// and set operations with itself and a sub-model.
pub fn query_suite(bytes: &[u8], pairs: &Pairs) -> CheckResult {
    let f = match Fst::new(bytes) {
        Ok(f) => f,
        Err(e) => vfail!("open-failed", "bytes do not open: {:?}", e),
    };
    vensure!(f.len() == pairs.len(), "len", "len()={} but content has {} keys", f.len(), pairs.len());
    let got = crate::gen::collect_stream(f.stream());
    vensure!(&got == pairs, "stream-mismatch", "stream yields {} but content is {}", keys_show(&got), keys_show(pairs));
    let (pr, _) = probes(pairs, false, &[]);
    check_lookups(bytes, pairs, &pr)?;
    // ranges: around first, middle, last key
    let mut bs: Vec<Bounds> = vec![vec![]];
    for idx in [0usize, pairs.len() / 2, pairs.len().saturating_sub(1)] {
        if let Some((k, _)) = pairs.get(idx) {
            let mut kz = k.clone();
            kz.push(0);
            for lk in [Kind::Ge, Kind::Gt] {
                bs.push(vec![(lk, k.clone())]);
                bs.push(vec![(lk, kz.clone())]);
            }
            for uk in [Kind::Le, Kind::Lt] {
                bs.push(vec![(uk, k.clone())]);
                bs.push(vec![(Kind::Ge, pairs[0].0.clone()), (uk, kz.clone())]);
            }
        }
    }
    {
        // bounds falling between, on and just beside every key (up to 48 keys; an evenly
        // spaced sample of 48 beyond that): seek paths through every kind of node
        let step = (pairs.len() / 48).max(1);
        for (k, _) in pairs.iter().step_by(step) {
            let mut kz = k.clone();
            kz.push(0);
            let mut kb = k.clone();
            if let Some(l) = kb.last_mut() {
                *l = l.wrapping_add(1);
            }
            let mut kd = k.clone();
            if let Some(l) = kd.last_mut() {
                *l = l.wrapping_sub(1);
            }
            bs.push(vec![(Kind::Ge, kb.clone())]);
            bs.push(vec![(Kind::Gt, kd.clone())]);
            bs.push(vec![(Kind::Gt, k.clone()), (Kind::Le, kz.clone())]);
            bs.push(vec![(Kind::Ge, kd), (Kind::Lt, kb)]);
        }
    }
    for b in &bs {
        check_range(bytes, pairs, b, false)?;
    }
    // searches
    if let Some((k, _)) = pairs.get(pairs.len() / 2) {
        if let Ok(s) = std::str::from_utf8(k) {
            let got = crate::gen::collect_stream(f.search(fst::automaton::Str::new(s)));
            let want: Pairs = pairs.iter().filter(|p| p.0 == *k).cloned().collect();
            vensure!(got == want, "search-mismatch", "search(Str({})) yields {}", show(k), keys_show(&got));
            let pre = &s[..s.char_indices().nth(1).map(|x| x.0).unwrap_or(s.len())];
            let got = crate::gen::collect_stream(f.search(fst::Automaton::starts_with(fst::automaton::Str::new(pre))));
            let want: Pairs = pairs.iter().filter(|p| p.0.starts_with(pre.as_bytes())).cloned().collect();
            vensure!(got == want, "search-mismatch", "search(Str({}).starts_with()) yields {} want {}", pre, keys_show(&got), keys_show(&want));
        }
    }
    // search_with_state: keys, values and the reported automaton state
    {
        use fst::Automaton;
        let aut = fst::automaton::Subsequence::new("ab");
        let mut s = f.search_with_state(&aut).into_stream();
        let mut i = 0usize;
        let mut it = pairs.iter().filter_map(|(k, v)| {
            let mut st = aut.start();
            for &b in k {
                st = aut.accept(&st, b);
            }
            if aut.is_match(&st) { Some((k, *v, st)) } else { None }
        });
        while let Some((k, v, st)) = s.next() {
            match it.next() {
                Some((wk, wv, wst)) => {
                    vensure!(k == &wk[..] && v.value() == wv && st == wst, "search-state-mismatch", "search_with_state(Subsequence(\"ab\")) item {}: got {}={} state {}, expected {}={} state {}", i, show(k), v.value(), st, show(wk), wv, wst);
                }
                None => vfail!("search-state-mismatch", "search_with_state yields extra item {}", show(k)),
            }
            i += 1;
        }
        vensure!(it.next().is_none(), "search-state-mismatch", "search_with_state ended early after {} items", i);
    }
    // get_key, where its precondition (values strictly increasing with the keys) holds
    if pairs.windows(2).all(|w| w[0].1 < w[1].1) {
        check_get_key(bytes, pairs, 64)?;
    }
    // set operations with a sub-model
    let half: Pairs = pairs.iter().step_by(2).cloned().collect();
    let hs = crate::gen::VecStream::new(&half);
    let mut u = f.op().add(hs).union();
    let mut n = 0;
    while let Some((k, ivs)) = u.next() {
        let want = &pairs[n];
        vensure!(k == &want.0[..], "setop-mismatch", "union with a sub-stream yields key {} at position {}", show(k), n);
        let in_half = n % 2 == 0;
        vensure!(ivs.len() == if in_half { 2 } else { 1 }, "setop-mismatch", "union IndexedValue count {} for key {}", ivs.len(), show(k));
        n += 1;
    }
    vensure!(n == pairs.len(), "setop-mismatch", "union with a sub-stream yields {} keys, want {}", n, pairs.len());
    let hs = crate::gen::VecStream::new(&half);
    let mut d = f.op().add(hs).difference();
    let mut got = vec![];
    while let Some((k, _)) = d.next() {
        got.push(k.to_vec());
    }
    let want: Vec<Vec<u8>> = pairs.iter().skip(1).step_by(2).map(|p| p.0.clone()).collect();
    vensure!(got == want, "setop-mismatch", "difference with a sub-stream yields {} keys, want {}", got.len(), want.len());
    Ok(())
}
