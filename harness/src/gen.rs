//! The shared input space: key-set shapes, value patterns, builder front
//! ends and cache geometries, as proptest strategies and as explicit
//! enumerations; plus `build`, which turns an `FstInput` into bytes through
//! the chosen front end.

use std::collections::BTreeMap;

use fst::raw::Output;
use fst::{IntoStreamer, Streamer};
use proptest::collection::vec;
use proptest::prelude::*;
use serde_json::{json, Value};

use crate::engine::{self, mix, pairs_from_json, pairs_json, H};

pub type Pairs = Vec<(Vec<u8>, u64)>;
pub type Model = BTreeMap<Vec<u8>, u64>;

#[derive(Clone, Copy, Debug, PartialEq, Eq, Hash)]
pub enum Front {
    RawInsert,
    RawAdd,
    MapBuilder,
    SetBuilder,
    MapFromIter,
    SetFromIter,
    RawFromIterMap,
    RawFromIterSet,
    MapExtendIter,
    SetExtendIter,
    RawExtendIter,
    MapExtendStream,
    SetExtendStream,
    RawExtendStream,
}

pub const MAP_FRONTS: [Front; 8] = [
    Front::RawInsert,
    Front::MapBuilder,
    Front::MapFromIter,
    Front::RawFromIterMap,
    Front::MapExtendIter,
    Front::RawExtendIter,
    Front::MapExtendStream,
    Front::RawExtendStream,
];
pub const SET_FRONTS: [Front; 6] = [
    Front::RawAdd,
    Front::SetBuilder,
    Front::SetFromIter,
    Front::RawFromIterSet,
    Front::SetExtendIter,
    Front::SetExtendStream,
];
pub const ALL_FRONTS: [Front; 14] = [
    Front::RawInsert,
    Front::RawAdd,
    Front::MapBuilder,
    Front::SetBuilder,
    Front::MapFromIter,
    Front::SetFromIter,
    Front::RawFromIterMap,
    Front::RawFromIterSet,
    Front::MapExtendIter,
    Front::SetExtendIter,
    Front::RawExtendIter,
    Front::MapExtendStream,
    Front::SetExtendStream,
    Front::RawExtendStream,
];

impl Front {
    pub fn is_set(self) -> bool {
        matches!(
            self,
            Front::RawAdd
                | Front::SetBuilder
                | Front::SetFromIter
                | Front::RawFromIterSet
                | Front::SetExtendIter
                | Front::SetExtendStream
        )
    }
    /// Front ends that accept a type tag (raw builder with new_type).
    pub fn takes_type(self) -> bool {
        matches!(
            self,
            Front::RawInsert
                | Front::RawAdd
                | Front::RawExtendIter
                | Front::RawExtendStream
        )
    }
    pub fn name(self) -> &'static str {
        match self {
            Front::RawInsert => "raw.insert",
            Front::RawAdd => "raw.add",
            Front::MapBuilder => "MapBuilder.insert",
            Front::SetBuilder => "SetBuilder.insert",
            Front::MapFromIter => "Map::from_iter",
            Front::SetFromIter => "Set::from_iter",
            Front::RawFromIterMap => "Fst::from_iter_map",
            Front::RawFromIterSet => "Fst::from_iter_set",
            Front::MapExtendIter => "MapBuilder.extend_iter",
            Front::SetExtendIter => "SetBuilder.extend_iter",
            Front::RawExtendIter => "raw.extend_iter",
            Front::MapExtendStream => "MapBuilder.extend_stream",
            Front::SetExtendStream => "SetBuilder.extend_stream",
            Front::RawExtendStream => "raw.extend_stream",
        }
    }
    pub fn from_name(s: &str) -> Option<Front> {
        ALL_FRONTS.iter().copied().find(|f| f.name() == s)
    }
}

/// A user-written stream over a vector (the "plain user Streamer").
pub struct VecStream<'v> {
    pub items: &'v [(Vec<u8>, u64)],
    pub pos: usize,
}

impl<'v> VecStream<'v> {
    pub fn new(items: &'v [(Vec<u8>, u64)]) -> VecStream<'v> {
        VecStream { items, pos: 0 }
    }
}

impl<'a, 'v> Streamer<'a> for VecStream<'v> {
    type Item = (&'a [u8], Output);
    fn next(&'a mut self) -> Option<(&'a [u8], Output)> {
        let i = self.pos;
        if i >= self.items.len() {
            return None;
        }
        self.pos += 1;
        Some((&self.items[i].0, Output::new(self.items[i].1)))
    }
}

/// Same, keys only (set streams).
pub struct KeyStream<'v> {
    pub items: &'v [(Vec<u8>, u64)],
    pub pos: usize,
}

impl<'a, 'v> Streamer<'a> for KeyStream<'v> {
    type Item = &'a [u8];
    fn next(&'a mut self) -> Option<&'a [u8]> {
        let i = self.pos;
        if i >= self.items.len() {
            return None;
        }
        self.pos += 1;
        Some(&self.items[i].0)
    }
}

#[derive(Clone, Debug)]
pub struct FstInput {
    pub front: Front,
    pub ty: u64,
    pub geom: Option<(usize, usize)>,
    /// strictly increasing keys; for set front ends values are 0
    pub pairs: Pairs,
}

impl FstInput {
    pub fn new(front: Front, geom: Option<(usize, usize)>, mut pairs: Pairs) -> FstInput {
        if front.is_set() {
            for p in pairs.iter_mut() {
                p.1 = 0;
            }
        }
        FstInput { front, ty: 0, geom, pairs }
    }
    pub fn model(&self) -> Model {
        self.pairs.iter().cloned().collect()
    }
    pub fn to_json(&self) -> Value {
        json!({
            "front": self.front.name(),
            "type": self.ty.to_string(),
            "geometry": self.geom.map(|(r, c)| json!([r, c])),
            "pairs": pairs_json(&self.pairs),
        })
    }
    pub fn from_json(v: &Value) -> Option<FstInput> {
        let front = Front::from_name(v.get("front")?.as_str()?)?;
        let ty = v.get("type")?.as_str()?.parse().ok()?;
        let geom = match v.get("geometry") {
            Some(Value::Array(a)) if a.len() == 2 => {
                Some((a[0].as_u64()? as usize, a[1].as_u64()? as usize))
            }
            _ => None,
        };
        let pairs = pairs_from_json(v.get("pairs")?)?;
        Some(FstInput { front, ty, geom, pairs })
    }
    pub fn hash(&self) -> u64 {
        let g = self.geom.map(|(r, c)| (r * 1000 + c) as u64 + 1).unwrap_or(0);
        H::new().u(self.front as u64).u(g).u(self.ty).pairs(&self.pairs).get()
    }
    /// Short rendering for evidence samples.
    pub fn sample(&self) -> Value {
        let shown: Vec<String> = self
            .pairs
            .iter()
            .take(12)
            .map(|(k, v)| format!("{}={}", engine::show(&k[..k.len().min(24)]), v))
            .collect();
        json!({
            "front": self.front.name(),
            "geometry": self.geom.map(|(r, c)| format!("{}x{}", r, c)),
            "n_keys": self.pairs.len(),
            "first_pairs": shown,
        })
    }
}

pub struct Built {
    pub bytes: Vec<u8>,
    pub evictions: u64,
}

fn fe<T>(r: Result<T, fst::Error>, what: &str) -> Result<T, String> {
    r.map_err(|e| format!("{} failed: {:?}", what, e))
}

/// Build through the chosen front end. Any error from the crate is returned
/// as a string (the inputs are valid by construction, so an error is a
/// finding for the caller to report).
pub fn build(input: &FstInput) -> Result<Built, String> {
    fst::raw::verif::set_registry_geometry(input.geom);
    let _ = fst::raw::verif::take_evictions();
    let r = build_inner(input);
    let evictions = fst::raw::verif::take_evictions();
    fst::raw::verif::set_registry_geometry(None);
    r.map(|bytes| Built { bytes, evictions })
}

/// Whether the raw-insert front end routes zero-valued keys through add(). Switched off only by
/// tools/recheck_seeds.py --base-rev, which re-runs seeded changes that were written against the
/// tree as it stood before fix 31bb6f9 (defect G lives exactly in that mixture).
fn mix_add() -> bool {
    static ON: std::sync::OnceLock<bool> = std::sync::OnceLock::new();
    *ON.get_or_init(|| std::env::var_os("VERIF_NO_ADD_MIX").is_none())
}

fn build_inner(input: &FstInput) -> Result<Vec<u8>, String> {
    let ps = &input.pairs;
    match input.front {
        Front::RawInsert => {
            let mut b = fe(fst::raw::Builder::new_type(vec![], input.ty), "new_type")?;
            for (i, (k, v)) in ps.iter().enumerate() {
                // add(k) is documented as inserting k with a zero output: every other zero-valued
                // key goes in through it, between insert calls
                if *v == 0 && (i + k.len()) % 2 == 0 && mix_add() {
                    fe(b.add(k), "add")?;
                } else {
                    fe(b.insert(k, *v), "insert")?;
                }
            }
            // the finishing call alternates between the ways of getting at the result
            if ps.len() % 2 == 1 {
                return Ok(b.into_fst().into_inner());
            }
            fe(b.into_inner(), "into_inner")
        }
        Front::RawAdd => {
            let mut b = fe(fst::raw::Builder::new_type(vec![], input.ty), "new_type")?;
            for (k, _) in ps {
                fe(b.add(k), "add")?;
            }
            fe(b.into_inner(), "into_inner")
        }
        Front::MapBuilder => {
            let mut b = fe(fst::MapBuilder::new(vec![]), "new")?;
            for (k, v) in ps {
                fe(b.insert(k, *v), "insert")?;
            }
            match ps.len() % 3 {
                1 => return Ok(b.into_map().into_fst().into_inner()),
                2 => {
                    let mut out = vec![];
                    let mut b2 = fe(fst::MapBuilder::new(&mut out), "new")?;
                    for (k, v) in ps {
                        fe(b2.insert(k, *v), "insert")?;
                    }
                    fe(b2.finish(), "finish")?;
                    return Ok(out);
                }
                _ => {}
            }
            fe(b.into_inner(), "into_inner")
        }
        Front::SetBuilder => {
            let mut b = fe(fst::SetBuilder::new(vec![]), "new")?;
            for (k, _) in ps {
                fe(b.insert(k), "insert")?;
            }
            match ps.len() % 3 {
                1 => return Ok(b.into_set().into_fst().into_inner()),
                2 => {
                    let mut out = vec![];
                    let mut b2 = fe(fst::SetBuilder::new(&mut out), "new")?;
                    for (k, _) in ps {
                        fe(b2.insert(k), "insert")?;
                    }
                    fe(b2.finish(), "finish")?;
                    return Ok(out);
                }
                _ => {}
            }
            fe(b.into_inner(), "into_inner")
        }
        Front::MapFromIter => {
            // iterators with an exact size hint, with none at all, and with a useless one
            let m = match ps.len() % 3 {
                0 => fe(fst::Map::from_iter(ps.iter().map(|(k, v)| (k, *v))), "from_iter")?,
                1 => {
                    let mut it = ps.iter();
                    fe(fst::Map::from_iter(std::iter::from_fn(move || it.next().map(|(k, v)| (k, *v)))), "from_iter")?
                }
                _ => fe(fst::Map::from_iter(ps.iter().filter(|_| true).map(|(k, v)| (k.clone(), *v))), "from_iter")?,
            };
            Ok(m.into_fst().into_inner())
        }
        Front::SetFromIter => {
            let s = match ps.len() % 3 {
                0 => fe(fst::Set::from_iter(ps.iter().map(|(k, _)| k)), "from_iter")?,
                1 => {
                    let mut it = ps.iter();
                    fe(fst::Set::from_iter(std::iter::from_fn(move || it.next().map(|(k, _)| k))), "from_iter")?
                }
                _ => fe(fst::Set::from_iter(ps.iter().filter(|_| true).map(|(k, _)| k.clone())), "from_iter")?,
            };
            Ok(s.into_fst().into_inner())
        }
        Front::RawFromIterMap => {
            let f = if ps.len() % 2 == 0 {
                fe(fst::raw::Fst::from_iter_map(ps.iter().map(|(k, v)| (k, *v))), "from_iter_map")?
            } else {
                let mut it = ps.iter();
                fe(fst::raw::Fst::from_iter_map(std::iter::from_fn(move || it.next().map(|(k, v)| (k, *v)))), "from_iter_map")?
            };
            Ok(f.into_inner())
        }
        Front::RawFromIterSet => {
            let f = if ps.len() % 2 == 0 {
                fe(fst::raw::Fst::from_iter_set(ps.iter().map(|(k, _)| k)), "from_iter_set")?
            } else {
                let mut it = ps.iter();
                fe(fst::raw::Fst::from_iter_set(std::iter::from_fn(move || it.next().map(|(k, _)| k))), "from_iter_set")?
            };
            Ok(f.into_inner())
        }
        Front::MapExtendIter => {
            let mut b = fst::MapBuilder::memory();
            if ps.len() % 2 == 0 {
                fe(b.extend_iter(ps.iter().map(|(k, v)| (k, *v))), "extend_iter")?;
            } else {
                let mut it = ps.iter();
                fe(b.extend_iter(std::iter::from_fn(move || it.next().map(|(k, v)| (k, *v)))), "extend_iter")?;
            }
            fe(b.into_inner(), "into_inner")
        }
        Front::SetExtendIter => {
            let mut b = fst::SetBuilder::memory();
            if ps.len() % 2 == 0 {
                fe(b.extend_iter(ps.iter().map(|(k, _)| k)), "extend_iter")?;
            } else {
                let mut it = ps.iter();
                fe(b.extend_iter(std::iter::from_fn(move || it.next().map(|(k, _)| k))), "extend_iter")?;
            }
            fe(b.into_inner(), "into_inner")
        }
        Front::RawExtendIter => {
            let mut b = fe(fst::raw::Builder::new_type(vec![], input.ty), "new_type")?;
            fe(
                b.extend_iter(ps.iter().map(|(k, v)| (k, Output::new(*v)))),
                "extend_iter",
            )?;
            fe(b.into_inner(), "into_inner")
        }
        Front::MapExtendStream => {
            let mut b = fst::MapBuilder::memory();
            fe(b.extend_stream(MapVecStream(VecStream::new(ps))), "extend_stream")?;
            fe(b.into_inner(), "into_inner")
        }
        Front::SetExtendStream => {
            let mut b = fst::SetBuilder::memory();
            fe(b.extend_stream(KeyStream { items: ps, pos: 0 }), "extend_stream")?;
            fe(b.into_inner(), "into_inner")
        }
        Front::RawExtendStream => {
            let mut b = fe(fst::raw::Builder::new_type(vec![], input.ty), "new_type")?;
            fe(b.extend_stream(VecStream::new(ps)), "extend_stream")?;
            fe(b.into_inner(), "into_inner")
        }
    }
}

/// Map-flavoured user stream: items are (&[u8], u64).
pub struct MapVecStream<'v>(pub VecStream<'v>);
impl<'a, 'v> Streamer<'a> for MapVecStream<'v> {
    type Item = (&'a [u8], u64);
    fn next(&'a mut self) -> Option<(&'a [u8], u64)> {
        self.0.next().map(|(k, o)| (k, o.value()))
    }
}

/// Plain in-memory build through the raw builder (the reference build used
/// by differential checks).
pub fn build_plain(pairs: &Pairs, set: bool) -> Result<Vec<u8>, String> {
    let mut b = fe(fst::raw::Builder::new(vec![]), "new")?;
    for (k, v) in pairs {
        if set {
            fe(b.add(k), "add")?;
        } else {
            fe(b.insert(k, *v), "insert")?;
        }
    }
    fe(b.into_inner(), "into_inner")
}

// ---------------------------------------------------------------------------
// Values

pub const BOUNDARY_VALUES: [u64; 30] = [
    0,
    1,
    2,
    0xff,
    0x100,
    0x101,
    0xffff,
    0x1_0000,
    0x1_0001,
    0xff_ffff,
    0x100_0000,
    0x100_0001,
    0xffff_ffff,
    0x1_0000_0000,
    0x1_0000_0001,
    0xff_ffff_ffff,
    0x100_0000_0000,
    0x100_0000_0001,
    0xffff_ffff_ffff,
    0x1_0000_0000_0000,
    0x1_0000_0000_0001,
    0xff_ffff_ffff_ffff,
    0x100_0000_0000_0000,
    0x100_0000_0000_0001,
    u64::MAX - 1,
    u64::MAX,
    0xfe,
    0xfffe,
    3,
    7,
];

pub fn value_strategy() -> impl Strategy<Value = u64> {
    prop_oneof![
        4 => (0usize..BOUNDARY_VALUES.len()).prop_map(|i| BOUNDARY_VALUES[i]),
        2 => any::<u64>(),
        2 => 0u64..16,
        1 => 0u64..70000,
    ]
}

#[derive(Clone, Copy, Debug)]
pub enum ValuePattern {
    AsGenerated,
    Zero,
    Constant(u64),
    Index,
    Length,
    Increasing,
    Decreasing,
    PrefixHeavy,
}

pub fn pattern_strategy() -> impl Strategy<Value = ValuePattern> {
    prop_oneof![
        6 => Just(ValuePattern::AsGenerated),
        1 => Just(ValuePattern::Zero),
        1 => value_strategy().prop_map(ValuePattern::Constant),
        1 => Just(ValuePattern::Index),
        1 => Just(ValuePattern::Length),
        2 => Just(ValuePattern::Increasing),
        2 => Just(ValuePattern::Decreasing),
        2 => Just(ValuePattern::PrefixHeavy),
    ]
}

/// Rewrite the values of sorted pairs according to the pattern. The values
/// generated by the strategy serve as entropy (gaps).
pub fn apply_pattern(p: ValuePattern, pairs: &mut Pairs) {
    let n = pairs.len();
    match p {
        ValuePattern::AsGenerated => {}
        ValuePattern::Zero => pairs.iter_mut().for_each(|x| x.1 = 0),
        ValuePattern::Constant(c) => pairs.iter_mut().for_each(|x| x.1 = c),
        ValuePattern::Index => {
            pairs.iter_mut().enumerate().for_each(|(i, x)| x.1 = i as u64)
        }
        ValuePattern::Length => {
            pairs.iter_mut().for_each(|x| x.1 = x.0.len() as u64)
        }
        ValuePattern::Increasing => {
            let mut cur: u64 = pairs.first().map(|x| x.1 % 3).unwrap_or(0);
            for (i, x) in pairs.iter_mut().enumerate() {
                if i > 0 {
                    let gap = 1 + (x.1 % 300);
                    cur = cur.saturating_add(gap);
                }
                x.1 = cur;
            }
        }
        ValuePattern::Decreasing => {
            let mut cur: u64 = u64::MAX - pairs.first().map(|x| x.1 % 3).unwrap_or(0);
            for (i, x) in pairs.iter_mut().enumerate() {
                if i > 0 {
                    let gap = 1 + (x.1 % 70000);
                    cur = cur.saturating_sub(gap);
                }
                x.1 = cur;
            }
        }
        ValuePattern::PrefixHeavy => {
            // shorter keys (parents) get larger values than longer ones
            for x in pairs.iter_mut() {
                let l = x.0.len() as u64;
                x.1 = (1000u64.saturating_sub(l * 100)).saturating_add(x.1 % 7);
            }
        }
    }
    let _ = n;
}

// ---------------------------------------------------------------------------
// Key shapes

pub fn sort_dedup(mut pairs: Pairs) -> Pairs {
    pairs.sort_by(|a, b| a.0.cmp(&b.0));
    pairs.dedup_by(|a, b| a.0 == b.0);
    pairs
}

fn with_empty(pairs_strat: BoxedStrategy<Pairs>) -> BoxedStrategy<Pairs> {
    (pairs_strat, prop::bool::weighted(0.25), value_strategy())
        .prop_map(|(mut ps, e, v)| {
            if e {
                ps.push((vec![], v));
            }
            ps
        })
        .boxed()
}

/// Shape 1: dense small alphabet.
pub fn shape_dense(max_keys: usize) -> BoxedStrategy<Pairs> {
    (vec(any::<u8>(), 1..=4), vec((vec(0usize..4, 0..=6), value_strategy()), 0..=max_keys))
        .prop_map(|(alpha, raw)| {
            raw.into_iter()
                .map(|(idx, v)| {
                    (idx.into_iter().map(|i| alpha[i % alpha.len()]).collect(), v)
                })
                .collect()
        })
        .boxed()
}

/// Shape 2: full byte range.
pub fn shape_bytes(max_keys: usize) -> BoxedStrategy<Pairs> {
    let byte = prop_oneof![
        3 => any::<u8>(),
        1 => Just(0u8),
        1 => Just(0xffu8),
        2 => (b'a'..=b'e'),
    ];
    vec((vec(byte, 0..=12), value_strategy()), 0..=max_keys).boxed()
}

pub const FANOUTS: [usize; 14] = [0, 1, 2, 3, 31, 32, 33, 34, 63, 64, 65, 254, 255, 256];

/// Shape 3: a chosen node gets exactly f children.
pub fn shape_fanout() -> BoxedStrategy<Pairs> {
    (
        vec(any::<u8>(), 0..=3),               // prefix of the forced node
        0usize..FANOUTS.len(),                 // fan-out
        any::<u8>(),                           // first child byte
        (0u8..128).prop_map(|x| x * 2 + 1),    // odd step => distinct bytes
        vec((vec(b'a'..=b'c', 0..=2), value_strategy(), any::<bool>()), 256), // per-child suffix/value
        any::<bool>(),                         // forced node itself final?
        value_strategy(),
        shape_bytes(6),                        // unrelated extra keys
    )
        .prop_map(|(prefix, fi, first, step, per, fin, fv, extra)| {
            let f = FANOUTS[fi];
            let mut ps: Pairs = extra;
            if fin {
                ps.push((prefix.clone(), fv));
            }
            for i in 0..f {
                let b = first.wrapping_add(step.wrapping_mul(i as u8));
                let (suffix, v, also_child_final) = &per[i];
                let mut k = prefix.clone();
                k.push(b);
                if *also_child_final && !suffix.is_empty() {
                    ps.push((k.clone(), v.wrapping_add(1)));
                }
                k.extend_from_slice(suffix);
                ps.push((k, *v));
            }
            ps
        })
        .boxed()
}

/// Shape 4: long keys with long shared prefixes and suffixes.
pub fn shape_long(max_len: usize) -> BoxedStrategy<Pairs> {
    (
        vec(any::<u8>(), 1..=8),                  // segment
        vec(any::<u8>(), 0..=8),                  // shared tail
        vec((0usize..=max_len, vec(any::<u8>(), 0..=3), value_strategy()), 1..=8),
    )
        .prop_map(|(seg, tail, ks)| {
            ks.into_iter()
                .map(|(len, mid, v)| {
                    let mut k = Vec::with_capacity(len + 16);
                    while k.len() < len {
                        k.extend_from_slice(&seg);
                    }
                    k.truncate(len);
                    k.extend_from_slice(&mid);
                    k.extend_from_slice(&tail);
                    (k, v)
                })
                .collect()
        })
        .boxed()
}

/// Shape 5: zero-padded counters.
pub fn shape_numeric(max_keys: usize) -> BoxedStrategy<Pairs> {
    (1usize..=8, 0u64..100000, 1u64..=13, 0..=max_keys, value_strategy())
        .prop_map(|(width, start, step, n, v0)| {
            (0..n as u64)
                .map(|i| {
                    let x = start + i * step;
                    let s = format!("{:0width$}", x, width = width);
                    (s.into_bytes(), v0.wrapping_add(i))
                })
                .collect()
        })
        .boxed()
}

/// Shape 7: cross product prefixes x suffixes — the same (possibly wide)
/// subtree hangs below several prefixes, so equivalent nodes with many
/// transitions occur (sharing of wide nodes, repeated suffix chains).
pub fn shape_product() -> BoxedStrategy<Pairs> {
    (
        vec(vec(b'p'..=b's', 1..=2), 2..=6),                       // prefixes
        prop_oneof![2 => 1usize..=8, 2 => 30usize..=40, 1 => Just(256usize), 1 => 60usize..=70], // width of the shared subtree
        any::<u8>(),
        vec(b'a'..=b'b', 0..=3),                                    // common tail below every child
        prop_oneof![3 => Just(0u64), 1 => value_strategy()],        // per-suffix value component
        any::<bool>(),
    )
        .prop_map(|(prefixes, width, first, tail, v, set_like)| {
            let mut ps: Pairs = vec![];
            for (pi, p) in prefixes.iter().enumerate() {
                for i in 0..width {
                    let mut k = p.clone();
                    k.push(first.wrapping_add(i as u8));
                    k.extend_from_slice(&tail);
                    // identical values below every prefix keep the subtrees equivalent in maps too
                    let val = if set_like { 0 } else { v.wrapping_add(i as u64 % 3) };
                    let _ = pi;
                    ps.push((k, val));
                }
            }
            ps
        })
        .boxed()
}

/// The weighted union of the small shapes (1–5), sorted and de-duplicated,
/// with a value pattern applied.
pub fn small_pairs(max_keys: usize, long_len: usize) -> BoxedStrategy<Pairs> {
    let shape = prop_oneof![
        4 => with_empty(shape_dense(max_keys)),
        4 => with_empty(shape_bytes(max_keys)),
        2 => with_empty(shape_fanout()),
        1 => with_empty(shape_long(long_len)),
        1 => with_empty(shape_numeric(max_keys)),
        1 => shape_product(),
    ];
    (shape, pattern_strategy())
        .prop_map(|(ps, pat)| {
            let mut ps = sort_dedup(ps);
            apply_pattern(pat, &mut ps);
            ps
        })
        .boxed()
}

/// Keys over a tiny alphabet but long (17..300 bytes): deep stacks, key
/// buffers beyond their initial capacities.
pub fn with_long_keys() -> BoxedStrategy<Pairs> {
    vec((vec(prop_oneof![Just(b'a'), Just(b'b'), Just(b'c')], 0..=3), prop_oneof![Just(17usize), Just(64), Just(65), Just(255), Just(256), 17usize..300], vec(prop_oneof![Just(b'a'), Just(b'b')], 0..=3), value_strategy()), 1..12)
        .prop_map(|v| {
            sort_dedup(
                v.into_iter()
                    .map(|(head, len, tail, val)| {
                        let mut k = head;
                        while k.len() < len {
                            k.push(b'a' + (k.len() % 2) as u8);
                        }
                        k.extend_from_slice(&tail);
                        (k, val)
                    })
                    .collect(),
            )
        })
        .boxed()
}

pub const HOOK_GEOMS: [(usize, usize); 12] = [
    (1, 1),
    (1, 2),
    (1, 3),
    (2, 1),
    (2, 2),
    (2, 3),
    (3, 2),
    (3, 4),
    (7, 1),
    (7, 2),
    (64, 2),
    (64, 4),
];

pub fn geom_strategy() -> impl Strategy<Value = Option<(usize, usize)>> {
    prop_oneof![
        2 => Just(None),
        5 => (0usize..HOOK_GEOMS.len()).prop_map(|i| Some(HOOK_GEOMS[i])),
    ]
}

pub fn front_strategy() -> impl Strategy<Value = Front> {
    (0usize..ALL_FRONTS.len()).prop_map(|i| ALL_FRONTS[i])
}

pub fn type_strategy() -> impl Strategy<Value = u64> {
    prop_oneof![
        3 => Just(0u64),
        1 => 0u64..=255,
        1 => any::<u64>(),
    ]
}

/// The full shared strategy `fst_input()`.
pub fn fst_input(max_keys: usize, long_len: usize) -> BoxedStrategy<FstInput> {
    (small_pairs(max_keys, long_len), front_strategy(), geom_strategy(), type_strategy())
        .prop_map(|(pairs, front, geom, ty)| {
            let mut inp = FstInput::new(front, geom, pairs);
            if front.takes_type() {
                inp.ty = ty;
            }
            inp
        })
        .boxed()
}

/// Same, maps only (front ends that carry values).
pub fn map_input(max_keys: usize, long_len: usize) -> BoxedStrategy<FstInput> {
    (
        small_pairs(max_keys, long_len),
        (0usize..MAP_FRONTS.len()).prop_map(|i| MAP_FRONTS[i]),
        geom_strategy(),
    )
        .prop_map(|(pairs, front, geom)| FstInput::new(front, geom, pairs))
        .boxed()
}

// ---------------------------------------------------------------------------
// Exhaustive small universes

/// All strings over `alpha` of length <= maxlen, in lexicographic order.
pub fn universe(alpha: &[u8], maxlen: usize) -> Vec<Vec<u8>> {
    let mut out: Vec<Vec<u8>> = vec![vec![]];
    let mut frontier: Vec<Vec<u8>> = vec![vec![]];
    for _ in 0..maxlen {
        let mut next = vec![];
        for s in &frontier {
            for &a in alpha {
                let mut t = s.clone();
                t.push(a);
                next.push(t);
            }
        }
        out.extend(next.iter().cloned());
        frontier = next;
    }
    out.sort();
    out
}

/// U3: the 15 strings over {a,b} of length <= 3.
pub fn u3() -> Vec<Vec<u8>> {
    universe(b"ab", 3)
}

/// U2: the 7 strings over {a,b} of length <= 2.
pub fn u2() -> Vec<Vec<u8>> {
    universe(b"ab", 2)
}

/// U_b: byte-order edge cases.
pub fn ub() -> Vec<Vec<u8>> {
    let mut v: Vec<Vec<u8>> = vec![
        vec![],
        vec![0],
        vec![0xff],
        b"a".to_vec(),
        b"a\x00".to_vec(),
        b"aa".to_vec(),
        b"ab".to_vec(),
        b"b".to_vec(),
    ];
    v.sort();
    v
}

pub fn subset<T: Clone>(universe: &[T], mask: u64) -> Vec<T> {
    universe
        .iter()
        .enumerate()
        .filter(|(i, _)| mask >> i & 1 == 1)
        .map(|(_, k)| k.clone())
        .collect()
}

/// Value assignment for exhaustive scopes, by pattern index.
pub fn enum_values(pattern: u64, keys: &[Vec<u8>]) -> Pairs {
    let n = keys.len() as u64;
    keys.iter()
        .enumerate()
        .map(|(i, k)| {
            let i = i as u64;
            let v = match pattern {
                0 => 0,
                1 => i,
                2 => (n - i) * 300,
                3 => BOUNDARY_VALUES[(i as usize * 3 + k.len()) % BOUNDARY_VALUES.len()],
                4 => k.len() as u64 * 255 + 1,
                _ => 1000u64.saturating_sub(k.len() as u64 * 300),
            };
            (k.clone(), v)
        })
        .collect()
}

// ---------------------------------------------------------------------------
// Large inputs from a small recipe (pure function of the recipe)

#[derive(Clone, Debug)]
pub struct Recipe {
    pub kind: u8, // 0 numeric, 1 hashed suffix, 2 words-like, 3 hashed suffix with proper-prefix pairs (k, k+x)
    pub n: u64,
    pub seed: u64,
    pub fanout: u8,
    pub keylen: u8,
    pub values: u8, // 0 zero, 1 index, 2 hashed, 3 decreasing
}

impl Recipe {
    pub fn to_json(&self) -> Value {
        json!({"kind": self.kind, "n": self.n, "seed": self.seed.to_string(),
               "fanout": self.fanout, "keylen": self.keylen, "values": self.values})
    }
    pub fn from_json(v: &Value) -> Option<Recipe> {
        Some(Recipe {
            kind: v.get("kind")?.as_u64()? as u8,
            n: v.get("n")?.as_u64()?,
            seed: v.get("seed")?.as_str()?.parse().ok()?,
            fanout: v.get("fanout")?.as_u64()? as u8,
            keylen: v.get("keylen")?.as_u64()? as u8,
            values: v.get("values")?.as_u64()? as u8,
        })
    }
    fn value(&self, i: u64) -> u64 {
        match self.values {
            0 => 0,
            1 => i,
            2 => mix(self.seed, i),
            _ => u64::MAX - i * 7,
        }
    }
    /// Call `f(key, value)` for each pair in strictly increasing key order.
    pub fn for_each(&self, mut f: impl FnMut(&[u8], u64)) {
        let fan = self.fanout.max(2) as u64;
        let keylen = self.keylen.max(4) as usize;
        match self.kind {
            0 => {
                // zero-padded counters with a step
                let step = 1 + self.seed % 7;
                let mut buf = Vec::with_capacity(16);
                for i in 0..self.n {
                    buf.clear();
                    let s = format!("{:012}", i * step);
                    buf.extend_from_slice(s.as_bytes());
                    f(&buf, self.value(i));
                }
            }
            _ => {
                // counter prefix in base `fan` (digits 'a'..), followed by a
                // hashed suffix over the same alphabet: bounded fan-out,
                // bounded length, unbounded number of distinct nodes.
                // alphabets of more than 150 symbols start at byte 1 instead of 'a'
                let base: u8 = if fan > 150 { 1 } else { b'a' };
                let mut digits = 1usize;
                let mut cap = fan;
                while cap < self.n.max(1) {
                    cap = cap.saturating_mul(fan);
                    digits += 1;
                }
                let suffix_len = keylen.saturating_sub(digits).max(1);
                let mut buf = Vec::with_capacity(digits + suffix_len);
                for i in 0..self.n {
                    buf.clear();
                    let mut x = i;
                    let mut tmp = [0u8; 64];
                    for d in (0..digits).rev() {
                        tmp[d] = base + (x % fan) as u8;
                        x /= fan;
                    }
                    buf.extend_from_slice(&tmp[..digits]);
                    let mut h = mix(self.seed, i / if self.kind == 2 { 3 } else { 1 });
                    for _ in 0..suffix_len {
                        buf.push(base + (h % fan) as u8);
                        h = mix(h, 1);
                    }
                    if self.kind == 3 {
                        // proper-prefix pairs: k, then k + "x" (two keys per step)
                        // (value kind 0 means "a set": both keys of a pair carry 0)
                        let odd = if self.values == 0 { 0 } else { 1 };
                        f(&buf, self.value(i).wrapping_mul(2));
                        buf.push(base + (h % fan) as u8);
                        f(&buf, self.value(i).wrapping_mul(2).wrapping_add(odd));
                    } else {
                        f(&buf, self.value(i));
                    }
                }
            }
        }
    }
    pub fn pairs(&self) -> Pairs {
        let mut out = Vec::with_capacity(self.n as usize);
        self.for_each(|k, v| out.push((k.to_vec(), v)));
        out
    }
}

/// Lines of a corpus file under /repo/data, sorted and de-duplicated.
pub fn corpus(name: &str) -> Option<Vec<Vec<u8>>> {
    let data = std::fs::read(format!("/repo/data/{}", name)).ok()?;
    if data.is_empty() {
        return None;
    }
    let mut lines: Vec<Vec<u8>> = data
        .split(|&b| b == b'\n')
        .filter(|l| !l.is_empty())
        .map(|l| l.to_vec())
        .collect();
    lines.sort();
    lines.dedup();
    Some(lines)
}

/// Collect a raw stream into pairs.
pub fn collect_stream<'f, I, S>(s: I) -> Pairs
where
    I: for<'a> IntoStreamer<'a, Into = S, Item = (&'a [u8], Output)>,
    S: 'f + for<'a> Streamer<'a, Item = (&'a [u8], Output)>,
{
    let mut s = s.into_stream();
    let mut out = vec![];
    while let Some((k, v)) = s.next() {
        out.push((k.to_vec(), v.value()));
    }
    out
}
