//! `vf` — verification harness for BurntSushi/fst (property-based testing
//! and fuzzing). One sub-command per property; see /verif/DESIGN.md.


use vf::engine::{self, Engine, Tier};
use vf::{alloc, props};

#[global_allocator]
static GLOBAL: alloc::Counting = alloc::Counting;

fn usage() -> ! {
    eprintln!("usage: vf <C01..C20> [--tier quick|thorough] [--replay <file>] [--seed N]");
    std::process::exit(2);
}

fn main() {
    let args: Vec<String> = std::env::args().skip(1).collect();
    if args.is_empty() {
        usage();
    }
    let prop = args[0].clone();
    // internal sub-commands (probe children) are dispatched first
    if prop.starts_with("child-") {
        std::process::exit(props::child(&prop, &args[1..]));
    }
    let mut tier = match std::env::var("VERIF_TIER").as_deref() {
        Ok("thorough") => Tier::Thorough,
        _ => Tier::Quick,
    };
    let mut seed: u64 = std::env::var("VERIF_SEED")
        .ok()
        .and_then(|s| s.trim().parse::<i128>().ok())
        .map(|v| v as u64)
        .unwrap_or(0);
    let mut replay: Option<String> = None;
    let mut i = 1;
    while i < args.len() {
        match args[i].as_str() {
            "--tier" => {
                i += 1;
                tier = match args.get(i).map(|s| s.as_str()) {
                    Some("quick") => Tier::Quick,
                    Some("thorough") => Tier::Thorough,
                    _ => usage(),
                };
            }
            "--seed" => {
                i += 1;
                seed = args.get(i).and_then(|s| s.parse().ok()).unwrap_or_else(|| usage());
            }
            "--replay" => {
                i += 1;
                replay = Some(args.get(i).cloned().unwrap_or_else(|| usage()));
            }
            _ => usage(),
        }
        i += 1;
    }
    engine::silence_panics();
    let code = match replay {
        Some(path) => props::replay(&prop, &path),
        None => props::run(&prop, tier, seed),
    };
    std::process::exit(code);
}

#[allow(dead_code)]
fn _unused(_: Engine) {}
