//! Independent decoder and encoder of the on-disk format (versions 1–3),
//! written from the format description in DESIGN.md Appendix A. Nothing in
//! here calls into the crate's reader or writer.

use std::collections::{BTreeMap, HashMap};

use crate::crcref;
use crate::frozen_common_inputs::{BYTE_OF_RANK, RANK};
use crate::gen::Pairs;

#[derive(Clone, Debug, PartialEq, Eq, Hash)]
pub struct RNode {
    pub addr: usize,  // index of the state byte (last byte)
    pub start: usize, // index of the first byte
    pub form: u8,     // 0 any-trans, 1 one-trans, 2 one-trans-next
    pub is_final: bool,
    pub final_output: u64,
    pub trans: Vec<(u8, u64, usize)>, // (input, output, target addr; 0 = sentinel)
    pub tsize: u8,
    pub osize: u8,
    pub has_index: bool,
}

#[derive(Debug)]
pub struct Decoded {
    pub version: u64,
    pub ty: u64,
    pub count: u64,
    pub root: usize,
    pub crc: Option<u32>,
    pub nodes: BTreeMap<usize, RNode>, // reachable nodes by address (sentinel excluded)
    pub pairs: Pairs,
    pub uses_sentinel: bool,
}

fn le64(b: &[u8]) -> u64 {
    let mut x = 0u64;
    for i in 0..8 {
        x |= (b[i] as u64) << (8 * i);
    }
    x
}

fn le32(b: &[u8]) -> u32 {
    let mut x = 0u32;
    for i in 0..4 {
        x |= (b[i] as u32) << (8 * i);
    }
    x
}

fn uint(b: &[u8], n: usize) -> u64 {
    let mut x = 0u64;
    for i in 0..n {
        x |= (b[i] as u64) << (8 * i);
    }
    x
}

/// Parse the node whose state byte is at `addr`. `lo` is the first body
/// byte (16); every byte of the node must lie in [lo, addr].
fn parse_node(data: &[u8], version: u64, addr: usize, lo: usize) -> Result<RNode, String> {
    let need = |pos: isize, what: &str| -> Result<usize, String> {
        if pos < lo as isize {
            Err(format!("node@{}: {} would start before the body (at {})", addr, what, pos))
        } else {
            Ok(pos as usize)
        }
    };
    let s = data[addr];
    let top = s >> 6;
    let low = (s & 0x3f) as usize;
    let mut pos = addr as isize; // next byte to consume is pos-1
    if top == 0b11 || top == 0b10 {
        // one transition; input
        let input = if low == 0 {
            pos -= 1;
            data[need(pos, "input byte")?]
        } else {
            BYTE_OF_RANK[low - 1]
        };
        if top == 0b11 {
            let start = pos as usize;
            if start <= lo {
                return Err(format!("node@{}: one-trans-next has no preceding node", addr));
            }
            return Ok(RNode {
                addr,
                start,
                form: 2,
                is_final: false,
                final_output: 0,
                trans: vec![(input, 0, start - 1)],
                tsize: 0,
                osize: 0,
                has_index: false,
            });
        }
        pos -= 1;
        let sizes = data[need(pos, "pack sizes")?];
        let (tsize, osize) = ((sizes >> 4) as usize, (sizes & 15) as usize);
        if tsize > 8 || osize > 8 || tsize == 0 {
            return Err(format!("node@{}: bad pack sizes {:#x}", addr, sizes));
        }
        pos -= tsize as isize;
        let dpos = need(pos, "delta")?;
        let delta = uint(&data[dpos..], tsize);
        pos -= osize as isize;
        let opos = need(pos, "output")?;
        let out = if osize == 0 { 0 } else { uint(&data[opos..], osize) };
        let start = pos as usize;
        let target = if delta == 0 {
            0
        } else {
            if delta as usize > start {
                return Err(format!("node@{}: delta {} exceeds node start {}", addr, delta, start));
            }
            start - delta as usize
        };
        return Ok(RNode {
            addr,
            start,
            form: 1,
            is_final: false,
            final_output: 0,
            trans: vec![(input, out, target)],
            tsize: tsize as u8,
            osize: osize as u8,
            has_index: false,
        });
    }
    // any-trans
    let is_final = s & 0x40 != 0;
    let ntrans = if low == 0 {
        pos -= 1;
        let v = data[need(pos, "transition count")?] as usize;
        if v == 1 {
            256
        } else {
            v
        }
    } else {
        low
    };
    pos -= 1;
    let sizes = data[need(pos, "pack sizes")?];
    let (tsize, osize) = ((sizes >> 4) as usize, (sizes & 15) as usize);
    if tsize > 8 || osize > 8 {
        return Err(format!("node@{}: bad pack sizes {:#x}", addr, sizes));
    }
    if ntrans > 0 && tsize == 0 {
        return Err(format!("node@{}: {} transitions with delta width 0", addr, ntrans));
    }
    let has_index = version >= 2 && ntrans > 32;
    let mut index: Option<usize> = None;
    if has_index {
        pos -= 256;
        index = Some(need(pos, "index table")?);
    }
    pos -= ntrans as isize;
    let inputs = need(pos, "inputs")?;
    pos -= (ntrans * tsize) as isize;
    let deltas = need(pos, "deltas")?;
    pos -= (ntrans * osize) as isize;
    let outs = need(pos, "outputs")?;
    let mut final_output = 0;
    if is_final && osize > 0 {
        pos -= osize as isize;
        let fpos = need(pos, "final output")?;
        final_output = uint(&data[fpos..], osize);
    }
    let start = pos as usize;
    let mut trans = Vec::with_capacity(ntrans);
    for i in 0..ntrans {
        // transition i (i-th smallest input) is stored at reverse position
        let r = ntrans - 1 - i;
        let inp = data[inputs + r];
        let delta = uint(&data[deltas + r * tsize..], tsize);
        let out = if osize == 0 { 0 } else { uint(&data[outs + r * osize..], osize) };
        let target = if delta == 0 {
            0
        } else {
            if delta as usize > start {
                return Err(format!("node@{}: delta {} exceeds node start {}", addr, delta, start));
            }
            start - delta as usize
        };
        trans.push((inp, out, target));
    }
    for w in trans.windows(2) {
        if w[0].0 >= w[1].0 {
            return Err(format!("node@{}: inputs not strictly increasing ({} then {})", addr, w[0].0, w[1].0));
        }
    }
    if let Some(ix) = index {
        let mut want = [255usize; 256];
        for (i, t) in trans.iter().enumerate() {
            want[t.0 as usize] = i;
        }
        for b in 0..256 {
            let got = data[ix + b] as usize;
            if want[b] == 255 && ntrans < 256 {
                if got < ntrans {
                    return Err(format!("node@{}: index[{}]={} but no transition on that byte", addr, b, got));
                }
            } else if got != want[b] {
                return Err(format!("node@{}: index[{}]={} but transition number is {}", addr, b, got, want[b]));
            }
        }
    }
    Ok(RNode {
        addr,
        start,
        form: 0,
        is_final,
        final_output,
        trans,
        tsize: tsize as u8,
        osize: osize as u8,
        has_index,
    })
}

/// Decode a file by the format description alone and validate structure.
/// `max_keys` bounds the DFS that reconstructs the map (0 = skip the map).
pub fn decode(data: &[u8], max_keys: usize) -> Result<Decoded, String> {
    if data.len() < 32 {
        return Err(format!("file of {} bytes is shorter than any well-formed file", data.len()));
    }
    let version = le64(&data[0..]);
    let ty = le64(&data[8..]);
    if version == 0 || version > 3 {
        return Err(format!("unsupported version {}", version));
    }
    let (end, crc) = if version >= 3 {
        if data.len() < 36 {
            return Err("version 3 file shorter than 36 bytes".into());
        }
        (data.len() - 4, Some(le32(&data[data.len() - 4..])))
    } else {
        (data.len(), None)
    };
    let root = le64(&data[end - 8..]) as usize;
    let count = le64(&data[end - 16..]);
    let body_lo = 16usize;
    let body_hi = end - 16; // exclusive
    let mut nodes: BTreeMap<usize, RNode> = BTreeMap::new();
    let mut uses_sentinel = false;
    if root == 0 {
        if body_hi != body_lo {
            return Err(format!("root is the sentinel but the body has {} bytes", body_hi - body_lo));
        }
        uses_sentinel = true;
    } else {
        if root + 1 != body_hi {
            return Err(format!("root address {} is not the last body byte {}", root, body_hi as isize - 1));
        }
        if root < body_lo + 1 {
            return Err(format!("root address {} inside the header", root));
        }
        // parse all reachable nodes
        let mut stack = vec![root];
        while let Some(a) = stack.pop() {
            if nodes.contains_key(&a) {
                continue;
            }
            if a < body_lo + 1 || a >= body_hi {
                return Err(format!("transition target {} out of bounds [{}, {})", a, body_lo + 1, body_hi));
            }
            let n = parse_node(data, version, a, body_lo)?;
            for t in &n.trans {
                if t.2 == 0 {
                    uses_sentinel = true;
                } else {
                    if t.2 >= n.start {
                        return Err(format!("node@{}: target {} is not strictly before the node (start {})", a, t.2, n.start));
                    }
                    stack.push(t.2);
                }
            }
            nodes.insert(a, n);
        }
        // tiling: sorted by start, extents must tile [16, root]
        let mut ext: Vec<(usize, usize)> = nodes.values().map(|n| (n.start, n.addr)).collect();
        ext.sort();
        let mut cur = body_lo;
        for (s, a) in &ext {
            if *s != cur {
                return Err(format!("node extents do not tile the body: expected a node starting at {}, next starts at {} (gap or overlap)", cur, s));
            }
            cur = a + 1;
        }
        if cur != body_hi {
            return Err(format!("node extents end at {} but the body ends at {}", cur, body_hi));
        }
    }
    // decode the map
    let mut pairs: Pairs = vec![];
    if max_keys > 0 {
        let mut key: Vec<u8> = vec![];
        // iterative DFS: (addr, next transition, sum so far)
        let mut stack: Vec<(usize, usize, u64)> = vec![(root, 0, 0)];
        let emit = |addr: usize, sum: u64, nodes: &BTreeMap<usize, RNode>| -> Option<u64> {
            if addr == 0 {
                Some(sum)
            } else {
                let n = &nodes[&addr];
                if n.is_final {
                    Some(sum.wrapping_add(n.final_output))
                } else {
                    None
                }
            }
        };
        if let Some(v) = emit(root, 0, &nodes) {
            pairs.push((vec![], v));
        }
        while let Some((addr, ti, sum)) = stack.pop() {
            let nt = if addr == 0 { 0 } else { nodes[&addr].trans.len() };
            if ti >= nt {
                key.pop();
                continue;
            }
            let (inp, out, target) = nodes[&addr].trans[ti];
            stack.push((addr, ti + 1, sum));
            key.push(inp);
            let s2 = sum.wrapping_add(out);
            if let Some(v) = emit(target, s2, &nodes) {
                pairs.push((key.clone(), v));
                if pairs.len() > max_keys {
                    return Err(format!("more than {} keys decoded", max_keys));
                }
            }
            stack.push((target, 0, s2));
        }
    }
    Ok(Decoded { version, ty, count, root, crc, nodes, pairs, uses_sentinel })
}

/// Full conformance check of a version-3 build against the model.
pub fn conforms_v3(data: &[u8], ty: u64, model: &Pairs) -> Result<Decoded, String> {
    let d = decode(data, model.len() + 1)?;
    if d.version != 3 {
        return Err(format!("header version is {}, expected 3", d.version));
    }
    if d.ty != ty {
        return Err(format!("header type is {}, builder was given {}", d.ty, ty));
    }
    if d.count != model.len() as u64 {
        return Err(format!("footer key count is {}, {} keys were inserted", d.count, model.len()));
    }
    let want_crc = crcref::masked(&data[..data.len() - 4]);
    if d.crc != Some(want_crc) {
        return Err(format!("footer checksum {:?} but the masked CRC-32C of the preceding bytes is {:#x}", d.crc, want_crc));
    }
    if &d.pairs != model {
        return Err(format!(
            "decoding by the format description yields {} but the inserted map is {}",
            crate::oracle::keys_show(&d.pairs),
            crate::oracle::keys_show(model)
        ));
    }
    Ok(d)
}

// ---------------------------------------------------------------------------
// Encoder

#[derive(Clone, Copy, Debug, PartialEq, Eq)]
pub struct Policy {
    pub share: bool,
    pub use_otn: bool,
    /// widen pack sizes by one byte where possible (a different but valid
    /// writer policy: readers must not assume minimal widths)
    pub wide: bool,
}

#[derive(Default, Clone)]
struct TNode {
    is_final: bool,
    value: u64,
    edges: Vec<(u8, usize)>,
    minsub: u64,
}

fn pack_size(n: u64) -> usize {
    let mut s = 1;
    let mut x = n >> 8;
    while x > 0 {
        s += 1;
        x >>= 8;
    }
    s
}

fn put(out: &mut Vec<u8>, n: u64, size: usize) {
    for i in 0..size {
        out.push((n >> (8 * i)) as u8);
    }
}

struct Enc {
    out: Vec<u8>,
    version: u64,
    policy: Policy,
    last_addr: usize,
    memo: HashMap<(bool, u64, Vec<(u8, u64, usize)>), usize>,
}

impl Enc {
    fn emit(&mut self, is_final: bool, fout: u64, trans: &[(u8, u64, usize)]) -> usize {
        if is_final && fout == 0 && trans.is_empty() {
            return 0;
        }
        if self.policy.share {
            if let Some(&a) = self.memo.get(&(is_final, fout, trans.to_vec())) {
                return a;
            }
        }
        let start = self.out.len();
        let widen = |s: usize| if self.policy.wide && s < 8 { s + 1 } else { s };
        if trans.len() == 1 && !is_final {
            let (inp, o, target) = trans[0];
            let rank = RANK[inp as usize] as usize;
            let code = if rank + 1 <= 63 { rank + 1 } else { 0 };
            if self.policy.use_otn && o == 0 && target != 0 && target == self.last_addr && target + 1 == start {
                if code == 0 {
                    self.out.push(inp);
                }
                self.out.push(0b1100_0000 | code as u8);
            } else {
                let osize = if o == 0 { 0 } else { widen(pack_size(o)) };
                let delta = if target == 0 { 0 } else { (start - target) as u64 };
                let tsize = widen(pack_size(delta));
                put(&mut self.out, o, osize);
                put(&mut self.out, delta, tsize);
                self.out.push(((tsize as u8) << 4) | osize as u8);
                if code == 0 {
                    self.out.push(inp);
                }
                self.out.push(0b1000_0000 | code as u8);
            }
        } else {
            let n = trans.len();
            let any_out = fout != 0 || trans.iter().any(|t| t.1 != 0);
            let mut osize = 0;
            if any_out {
                osize = pack_size(fout);
                for t in trans {
                    osize = osize.max(pack_size(t.1));
                }
                osize = widen(osize);
            }
            let mut tsize = if n == 0 { 0 } else { 1 };
            for t in trans {
                let delta = if t.2 == 0 { 0 } else { (start - t.2) as u64 };
                tsize = tsize.max(pack_size(delta));
            }
            if n > 0 {
                tsize = widen(tsize);
            }
            if any_out {
                if is_final {
                    put(&mut self.out, fout, osize);
                }
                for t in trans.iter().rev() {
                    put(&mut self.out, t.1, osize);
                }
            }
            for t in trans.iter().rev() {
                let delta = if t.2 == 0 { 0 } else { (start - t.2) as u64 };
                put(&mut self.out, delta, tsize);
            }
            for t in trans.iter().rev() {
                self.out.push(t.0);
            }
            if self.version >= 2 && n > 32 {
                let mut index = [255u8; 256];
                for (i, t) in trans.iter().enumerate() {
                    index[t.0 as usize] = i as u8;
                }
                self.out.extend_from_slice(&index);
            }
            self.out.push(((tsize as u8) << 4) | osize as u8);
            let fin = if is_final { 0b0100_0000 } else { 0 };
            if n >= 1 && n <= 63 {
                self.out.push(fin | n as u8);
            } else {
                self.out.push(if n == 256 { 1 } else { n as u8 });
                self.out.push(fin);
            }
        }
        let addr = self.out.len() - 1;
        self.last_addr = addr;
        if self.policy.share {
            self.memo.insert((is_final, fout, trans.to_vec()), addr);
        }
        addr
    }
}

/// Encode a model in the given format version.
pub fn encode(pairs: &Pairs, version: u64, ty: u64, policy: Policy) -> Vec<u8> {
    // trie
    let mut nodes: Vec<TNode> = vec![TNode::default()];
    for (k, v) in pairs {
        let mut cur = 0;
        for &b in k {
            let next = match nodes[cur].edges.last() {
                Some(&(lb, idx)) if lb == b => idx,
                _ => {
                    nodes.push(TNode::default());
                    let idx = nodes.len() - 1;
                    nodes[cur].edges.push((b, idx));
                    idx
                }
            };
            cur = next;
        }
        nodes[cur].is_final = true;
        nodes[cur].value = *v;
    }
    // minimum value below each node (children have larger indices)
    for i in (0..nodes.len()).rev() {
        let mut m = if nodes[i].is_final { nodes[i].value } else { u64::MAX };
        for &(_, c) in &nodes[i].edges {
            m = m.min(nodes[c].minsub);
        }
        nodes[i].minsub = m;
    }
    let mut enc = Enc { out: vec![], version, policy, last_addr: usize::MAX, memo: HashMap::new() };
    put(&mut enc.out, version, 8);
    put(&mut enc.out, ty, 8);
    // post-order emission with explicit stack: (node, carried, next edge, compiled transitions)
    struct Frame {
        node: usize,
        carried: u64,
        next: usize,
        trans: Vec<(u8, u64, usize)>,
    }
    let mut stack = vec![Frame { node: 0, carried: 0, next: 0, trans: vec![] }];
    let mut root_addr = 0;
    while let Some(top) = stack.last_mut() {
        let node = top.node;
        if top.next < nodes[node].edges.len() {
            let (_, child) = nodes[node].edges[top.next];
            let child_carried = nodes[child].minsub;
            stack.push(Frame { node: child, carried: child_carried, next: 0, trans: vec![] });
            continue;
        }
        let f = stack.pop().unwrap();
        let fout = if nodes[node].is_final { nodes[node].value - f.carried } else { 0 };
        let addr = enc.emit(nodes[node].is_final, fout, &f.trans);
        match stack.last_mut() {
            None => root_addr = addr,
            Some(parent) => {
                let (b, _) = nodes[parent.node].edges[parent.next];
                let out = f.carried - parent.carried;
                parent.trans.push((b, out, addr));
                parent.next += 1;
            }
        }
    }
    // an empty, non-final root is a real (3-byte) node; emit handled it.
    put(&mut enc.out, pairs.len() as u64, 8);
    put(&mut enc.out, root_addr as u64, 8);
    if version >= 3 {
        let crc = crcref::masked(&enc.out);
        put(&mut enc.out, crc as u64, 4);
    }
    enc.out
}
