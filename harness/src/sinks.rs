//! Scripted io::Write sinks: partial writes, Interrupted, injected faults,
//! and a counting adapter.

use std::io::{self, Write};

use serde_json::{json, Value};

#[derive(Clone, Copy, Debug, PartialEq, Eq)]
pub enum Act {
    /// accept at most this many bytes (>= 1)
    Accept(usize),
    /// accept all but the last byte of the buffer (everything if 1 byte)
    AllButOne,
    Interrupted,
}

/// Follows a script, then accepts up to `then_cap` bytes per call
/// (usize::MAX = everything).
#[derive(Debug)]
pub struct ScriptSink {
    pub script: Vec<Act>,
    pub pos: usize,
    pub then_cap: usize,
    pub data: Vec<u8>,
    pub writes: u64,
    pub flushes: u64,
    pub flushed_len: usize,
    pub short_or_intr_at: Vec<usize>, // data offsets at which a short write / Interrupted happened
}

impl ScriptSink {
    pub fn new(script: Vec<Act>, then_cap: usize) -> ScriptSink {
        ScriptSink { script, pos: 0, then_cap: then_cap.max(1), data: vec![], writes: 0, flushes: 0, flushed_len: 0, short_or_intr_at: vec![] }
    }
}

impl Write for ScriptSink {
    fn write(&mut self, buf: &[u8]) -> io::Result<usize> {
        self.writes += 1;
        if buf.is_empty() {
            return Ok(0);
        }
        let cap = if self.pos < self.script.len() {
            let a = self.script[self.pos];
            self.pos += 1;
            match a {
                Act::Interrupted => {
                    self.short_or_intr_at.push(self.data.len());
                    return Err(io::Error::new(io::ErrorKind::Interrupted, "scripted interrupt"));
                }
                Act::Accept(n) => n.max(1),
                Act::AllButOne => (buf.len() - 1).max(1),
            }
        } else {
            self.then_cap
        };
        let n = cap.min(buf.len());
        if n < buf.len() {
            self.short_or_intr_at.push(self.data.len());
        }
        self.data.extend_from_slice(&buf[..n]);
        Ok(n)
    }
    fn flush(&mut self) -> io::Result<()> {
        self.flushes += 1;
        self.flushed_len = self.data.len();
        Ok(())
    }
}

pub fn script_json(s: &[Act]) -> Value {
    Value::Array(
        s.iter()
            .map(|a| match a {
                Act::Accept(n) => json!(n),
                Act::AllButOne => json!("-1"),
                Act::Interrupted => json!("I"),
            })
            .collect(),
    )
}

pub fn script_from_json(v: &Value) -> Option<Vec<Act>> {
    v.as_array()?
        .iter()
        .map(|x| {
            if x.as_str() == Some("I") {
                Some(Act::Interrupted)
            } else if x.as_str() == Some("-1") {
                Some(Act::AllButOne)
            } else {
                Some(Act::Accept(x.as_u64()? as usize))
            }
        })
        .collect()
}

/// Counts the bytes the inner writer has accepted.
pub struct Counted<W> {
    pub inner: W,
    pub accepted: u64,
}

impl<W: Write> Write for Counted<W> {
    fn write(&mut self, buf: &[u8]) -> io::Result<usize> {
        let n = self.inner.write(buf)?;
        self.accepted += n as u64;
        Ok(n)
    }
    fn flush(&mut self) -> io::Result<()> {
        self.inner.flush()
    }
}

#[derive(Clone, Copy, Debug, PartialEq, Eq)]
pub enum FaultKind {
    Other,
    BrokenPipe,
    PermissionDenied,
    WouldBlock,
    UnexpectedEof,
    WriteZero,
    OkZero,
}

impl FaultKind {
    pub const ALL: [FaultKind; 7] = [
        FaultKind::Other,
        FaultKind::BrokenPipe,
        FaultKind::PermissionDenied,
        FaultKind::WouldBlock,
        FaultKind::UnexpectedEof,
        FaultKind::WriteZero,
        FaultKind::OkZero,
    ];
    pub fn name(self) -> &'static str {
        match self {
            FaultKind::Other => "Other",
            FaultKind::BrokenPipe => "BrokenPipe",
            FaultKind::PermissionDenied => "PermissionDenied",
            FaultKind::WouldBlock => "WouldBlock",
            FaultKind::UnexpectedEof => "UnexpectedEof",
            FaultKind::WriteZero => "WriteZero",
            FaultKind::OkZero => "Ok(0)",
        }
    }
    pub fn from_name(s: &str) -> Option<FaultKind> {
        FaultKind::ALL.into_iter().find(|k| k.name() == s)
    }
    /// The ErrorKind the builder must report.
    pub fn expected(self) -> io::ErrorKind {
        match self {
            FaultKind::Other => io::ErrorKind::Other,
            FaultKind::BrokenPipe => io::ErrorKind::BrokenPipe,
            FaultKind::PermissionDenied => io::ErrorKind::PermissionDenied,
            FaultKind::WouldBlock => io::ErrorKind::WouldBlock,
            FaultKind::UnexpectedEof => io::ErrorKind::UnexpectedEof,
            FaultKind::WriteZero | FaultKind::OkZero => io::ErrorKind::WriteZero,
        }
    }
}

/// State of a fault-injecting sink, shared so that it can be inspected
/// after the builder (and the sink it owns) has been consumed.
#[derive(Debug, Default)]
pub struct FaultState {
    pub data: Vec<u8>,
    pub writes: u64,
    pub flushes: u64,
    pub flushed_len: Option<usize>,
    pub fired: bool,
    pub calls_after_fault: u64,
}

/// Fails exactly one call: write call number `fail_write` (0-based) or the
/// flush call (when `fail_flush`). Optionally accepts at most `cap` bytes
/// per successful write (short writes before the fault).
pub struct FaultSink {
    pub fail_write: Option<u64>,
    pub fail_flush: bool,
    pub kind: FaultKind,
    pub cap: usize,
    pub st: std::rc::Rc<std::cell::RefCell<FaultState>>,
}

impl FaultSink {
    pub fn new(fail_write: Option<u64>, fail_flush: bool, kind: FaultKind, cap: usize) -> (FaultSink, std::rc::Rc<std::cell::RefCell<FaultState>>) {
        let st = std::rc::Rc::new(std::cell::RefCell::new(FaultState::default()));
        (FaultSink { fail_write, fail_flush, kind, cap: cap.max(1), st: st.clone() }, st)
    }
}

impl Write for FaultSink {
    fn write(&mut self, buf: &[u8]) -> io::Result<usize> {
        let mut st = self.st.borrow_mut();
        let idx = st.writes;
        st.writes += 1;
        if st.fired {
            st.calls_after_fault += 1;
        }
        if buf.is_empty() {
            return Ok(0);
        }
        if self.fail_write == Some(idx) {
            st.fired = true;
            return match self.kind {
                FaultKind::OkZero => Ok(0),
                k => Err(io::Error::new(k.expected(), "injected fault")),
            };
        }
        let n = self.cap.min(buf.len());
        st.data.extend_from_slice(&buf[..n]);
        Ok(n)
    }
    fn flush(&mut self) -> io::Result<()> {
        let mut st = self.st.borrow_mut();
        st.flushes += 1;
        if self.fail_flush && !st.fired {
            st.fired = true;
            return Err(io::Error::new(self.kind.expected(), "injected fault"));
        }
        st.flushed_len = Some(st.data.len());
        Ok(())
    }
}
