//! Generated automata: explicit DFAs with sound pruning hints, a
//! type-erasing adapter so the crate's own combinators can be nested
//! arbitrarily, expression trees, and an independent reference semantics
//! for those trees (explicit state vectors, product / latch / complement).

use std::any::Any;
use std::collections::HashMap;
use std::rc::Rc;
use std::sync::Mutex;

use fst::automaton::{AlwaysMatch, Str, Subsequence};
use fst::Automaton;
use proptest::prelude::*;
use serde_json::{json, Value};

#[derive(Clone, Copy, Debug, PartialEq, Eq, Hash)]
pub enum ClassMap {
    /// class = b & 1
    Parity,
    /// class = (b == 'a')
    IsA,
    /// class = (b >= 0x80)
    High,
    /// class = b % 3 (3 classes)
    Mod3,
    /// class = min(b >> 6, n-1) (up to 4 classes)
    Top2,
}

impl ClassMap {
    pub fn nclasses(self) -> usize {
        match self {
            ClassMap::Parity | ClassMap::IsA | ClassMap::High => 2,
            ClassMap::Mod3 => 3,
            ClassMap::Top2 => 4,
        }
    }
    #[inline]
    pub fn class(self, b: u8) -> usize {
        match self {
            ClassMap::Parity => (b & 1) as usize,
            ClassMap::IsA => (b == b'a') as usize,
            ClassMap::High => (b >= 0x80) as usize,
            ClassMap::Mod3 => (b % 3) as usize,
            ClassMap::Top2 => (b >> 6) as usize,
        }
    }
    pub fn name(self) -> &'static str {
        match self {
            ClassMap::Parity => "parity",
            ClassMap::IsA => "is_a",
            ClassMap::High => "high",
            ClassMap::Mod3 => "mod3",
            ClassMap::Top2 => "top2",
        }
    }
    pub fn from_name(s: &str) -> Option<ClassMap> {
        [ClassMap::Parity, ClassMap::IsA, ClassMap::High, ClassMap::Mod3, ClassMap::Top2]
            .into_iter()
            .find(|c| c.name() == s)
    }
    pub const TWO: [ClassMap; 3] = [ClassMap::Parity, ClassMap::IsA, ClassMap::High];
}

/// An explicit DFA with pruning hints.
#[derive(Clone, Debug, PartialEq, Eq, Hash)]
pub struct Dfa {
    pub classes: ClassMap,
    pub ncls: usize,
    pub trans: Vec<Vec<usize>>, // [state][class]
    pub accept: Vec<bool>,
    pub can: Vec<bool>,
    pub always: Vec<bool>,
}

impl Dfa {
    pub fn n(&self) -> usize {
        self.trans.len()
    }
    /// reach[s]: an accepting state is reachable from s in >= 0 steps.
    pub fn reach_accept(&self) -> Vec<bool> {
        let n = self.n();
        let mut r = self.accept.clone();
        loop {
            let mut changed = false;
            for s in 0..n {
                if !r[s] && self.trans[s].iter().take(self.ncls).any(|&t| r[t]) {
                    r[s] = true;
                    changed = true;
                }
            }
            if !changed {
                return r;
            }
        }
    }
    /// all[s]: every state reachable from s in >= 0 steps is accepting.
    pub fn all_accept(&self) -> Vec<bool> {
        let n = self.n();
        let mut r = self.accept.clone();
        loop {
            let mut changed = false;
            for s in 0..n {
                if r[s] && self.trans[s].iter().take(self.ncls).any(|&t| !r[t]) {
                    r[s] = false;
                    changed = true;
                }
            }
            if !changed {
                return r;
            }
        }
    }
    /// Exact (tightest sound) hints.
    pub fn with_exact_hints(mut self) -> Dfa {
        self.can = self.reach_accept();
        self.always = self.all_accept();
        self
    }
    /// Weakest hints (all can_match true, will_always_match false).
    pub fn with_weak_hints(mut self) -> Dfa {
        self.can = vec![true; self.n()];
        self.always = vec![false; self.n()];
        self
    }
    /// Weaken exact hints by the given bit masks (bit s set => weaken s).
    pub fn weaken(mut self, can_mask: u64, always_mask: u64) -> Dfa {
        let exact_can = self.reach_accept();
        let exact_all = self.all_accept();
        for s in 0..self.n() {
            self.can[s] = exact_can[s] || (can_mask >> s & 1 == 1);
            self.always[s] = exact_all[s] && !(always_mask >> s & 1 == 1);
        }
        self
    }
    pub fn hints_sound(&self) -> bool {
        let r = self.reach_accept();
        let a = self.all_accept();
        (0..self.n()).all(|s| (self.can[s] || !r[s]) && (!self.always[s] || a[s]))
    }
    pub fn run(&self, input: &[u8]) -> usize {
        let mut s = 0;
        for &b in input {
            s = self.trans[s][self.classes.class(b)];
        }
        s
    }
    pub fn to_json(&self) -> Value {
        json!({"classes": self.classes.name(), "ncls": self.ncls, "trans": self.trans, "accept": self.accept,
               "can": self.can, "always": self.always})
    }
    pub fn from_json(v: &Value) -> Option<Dfa> {
        let bools = |x: &Value| -> Option<Vec<bool>> { x.as_array()?.iter().map(|b| b.as_bool()).collect() };
        let trans: Option<Vec<Vec<usize>>> = v
            .get("trans")?
            .as_array()?
            .iter()
            .map(|row| row.as_array()?.iter().map(|x| x.as_u64().map(|y| y as usize)).collect())
            .collect();
        Some(Dfa {
            classes: ClassMap::from_name(v.get("classes")?.as_str()?)?,
            ncls: v.get("ncls")?.as_u64()? as usize,
            trans: trans?,
            accept: bools(v.get("accept")?)?,
            can: bools(v.get("can")?)?,
            always: bools(v.get("always")?)?,
        })
    }
    pub fn show(&self) -> String {
        format!(
            "DFA[{} cls={} trans={:?} acc={:?} can={:?} always={:?}]",
            self.n(),
            self.classes.name(),
            self.trans,
            self.accept.iter().map(|&b| b as u8).collect::<Vec<_>>(),
            self.can.iter().map(|&b| b as u8).collect::<Vec<_>>(),
            self.always.iter().map(|&b| b as u8).collect::<Vec<_>>()
        )
    }
}

impl Automaton for Dfa {
    type State = usize;
    fn start(&self) -> usize {
        0
    }
    fn is_match(&self, s: &usize) -> bool {
        self.accept[*s]
    }
    fn can_match(&self, s: &usize) -> bool {
        self.can[*s]
    }
    fn will_always_match(&self, s: &usize) -> bool {
        self.always[*s]
    }
    fn accept(&self, s: &usize, b: u8) -> usize {
        self.trans[*s][self.classes.class(b)]
    }
}

/// All DFAs with exactly `n` states over `ncls` classes of `classes`
/// (transition tables x acceptance sets), with exact hints. Index-addressed
/// so enumerations can be split.
pub fn dfa_count(n: usize, ncls: usize) -> u64 {
    (n as u64).pow((n * ncls) as u32) * (1u64 << n)
}

pub fn dfa_by_index(n: usize, classes: ClassMap, mut idx: u64) -> Dfa {
    let ncls = classes.nclasses();
    let mut accept = vec![false; n];
    for a in accept.iter_mut() {
        *a = idx & 1 == 1;
        idx >>= 1;
    }
    let mut trans = vec![vec![0usize; ncls]; n];
    for s in 0..n {
        for c in 0..ncls {
            trans[s][c] = (idx % n as u64) as usize;
            idx /= n as u64;
        }
    }
    Dfa { classes, ncls, trans, accept, can: vec![true; n], always: vec![false; n] }.with_exact_hints()
}

/// Every sound can_match assignment of a DFA (exact will_always hints and
/// weakest will_always hints alternate).
pub fn sound_can_variants(d: &Dfa) -> Vec<Dfa> {
    let reach = d.reach_accept();
    let dead: Vec<usize> = (0..d.n()).filter(|&s| !reach[s]).collect();
    let mut out = vec![];
    for m in 0..(1u64 << dead.len()) {
        let mut v = d.clone().with_exact_hints();
        for (i, &s) in dead.iter().enumerate() {
            if m >> i & 1 == 1 {
                v.can[s] = true;
            }
        }
        out.push(v);
    }
    out
}

/// Every sound assignment of both hints.
pub fn sound_hint_variants(d: &Dfa) -> Vec<Dfa> {
    let all = d.all_accept();
    let live: Vec<usize> = (0..d.n()).filter(|&s| all[s]).collect();
    let mut out = vec![];
    for v in sound_can_variants(d) {
        for m in 0..(1u64 << live.len()) {
            let mut w = v.clone();
            for (i, &s) in live.iter().enumerate() {
                if m >> i & 1 == 1 {
                    w.always[s] = false;
                }
            }
            out.push(w);
        }
    }
    out
}

pub fn dfa_strategy(max_states: usize) -> impl Strategy<Value = Dfa> {
    (
        1usize..=max_states,
        prop_oneof![
            Just(ClassMap::Parity),
            Just(ClassMap::IsA),
            Just(ClassMap::High),
            Just(ClassMap::Mod3),
            Just(ClassMap::Top2)
        ],
        proptest::collection::vec(proptest::collection::vec(any::<u16>(), 4), max_states),
        proptest::collection::vec(prop::bool::weighted(0.35), max_states),
        any::<u64>(),
        any::<u64>(),
        prop::bool::weighted(0.4),
    )
        .prop_map(|(n, classes, raw, acc, m1, m2, sink)| {
            let ncls = classes.nclasses();
            let mut trans: Vec<Vec<usize>> = (0..n)
                .map(|s| (0..ncls).map(|c| crate::oracle::pick(raw[s][c], n)).collect())
                .collect();
            if sink && n >= 2 {
                // make the last state an absorbing non-accepting sink so that
                // dead states (can_match = false) are common
                trans[n - 1] = vec![n - 1; ncls];
            }
            let mut accept: Vec<bool> = acc[..n].to_vec();
            if sink && n >= 2 {
                accept[n - 1] = false;
            }
            Dfa { classes, ncls, trans, accept, can: vec![true; n], always: vec![false; n] }
                .weaken(m1 & m2, m1 | m2) // weaken few can-hints, many always-hints
        })
}

// ---------------------------------------------------------------------------
// Type erasure

pub type DynState = Rc<dyn Any>;

trait ErasedAut {
    fn e_start(&self) -> DynState;
    fn e_is_match(&self, s: &dyn Any) -> bool;
    fn e_can_match(&self, s: &dyn Any) -> bool;
    fn e_will_always_match(&self, s: &dyn Any) -> bool;
    fn e_accept(&self, s: &dyn Any, b: u8) -> DynState;
}

impl<A: Automaton> ErasedAut for A
where
    A::State: 'static,
{
    fn e_start(&self) -> DynState {
        Rc::new(self.start())
    }
    fn e_is_match(&self, s: &dyn Any) -> bool {
        self.is_match(s.downcast_ref::<A::State>().expect("state type"))
    }
    fn e_can_match(&self, s: &dyn Any) -> bool {
        self.can_match(s.downcast_ref::<A::State>().expect("state type"))
    }
    fn e_will_always_match(&self, s: &dyn Any) -> bool {
        self.will_always_match(s.downcast_ref::<A::State>().expect("state type"))
    }
    fn e_accept(&self, s: &dyn Any, b: u8) -> DynState {
        Rc::new(self.accept(s.downcast_ref::<A::State>().expect("state type"), b))
    }
}

/// An automaton of erased type; the crate's combinators applied to `Erased`
/// values run the crate's own Union/Intersection/Complement/StartsWith code
/// at every level of nesting.
pub struct Erased(Box<dyn ErasedAut>);

impl Erased {
    pub fn new<A: Automaton + 'static>(a: A) -> Erased
    where
        A::State: 'static,
    {
        Erased(Box::new(a))
    }
}

impl Automaton for Erased {
    type State = DynState;
    fn start(&self) -> DynState {
        self.0.e_start()
    }
    fn is_match(&self, s: &DynState) -> bool {
        self.0.e_is_match(s.as_ref())
    }
    fn can_match(&self, s: &DynState) -> bool {
        self.0.e_can_match(s.as_ref())
    }
    fn will_always_match(&self, s: &DynState) -> bool {
        self.0.e_will_always_match(s.as_ref())
    }
    fn accept(&self, s: &DynState, b: u8) -> DynState {
        self.0.e_accept(s.as_ref(), b)
    }
}

fn intern(s: &str) -> &'static str {
    static POOL: Mutex<Option<HashMap<String, &'static str>>> = Mutex::new(None);
    let mut g = POOL.lock().unwrap();
    let m = g.get_or_insert_with(HashMap::new);
    if let Some(v) = m.get(s) {
        return v;
    }
    let leaked: &'static str = Box::leak(s.to_string().into_boxed_str());
    m.insert(s.to_string(), leaked);
    leaked
}

// ---------------------------------------------------------------------------
// Expression trees

#[derive(Clone, Debug, PartialEq, Eq, Hash)]
pub enum Expr {
    Str(String),
    Subseq(String),
    Always,
    Dfa(Dfa),
    StartsWith(Box<Expr>),
    Union(Box<Expr>, Box<Expr>),
    Inter(Box<Expr>, Box<Expr>),
    Compl(Box<Expr>),
}

impl Expr {
    pub fn depth(&self) -> usize {
        match self {
            Expr::Str(_) | Expr::Subseq(_) | Expr::Always | Expr::Dfa(_) => 0,
            Expr::StartsWith(a) | Expr::Compl(a) => 1 + a.depth(),
            Expr::Union(a, b) | Expr::Inter(a, b) => 1 + a.depth().max(b.depth()),
        }
    }
    pub fn show(&self) -> String {
        match self {
            Expr::Str(s) => format!("Str({:?})", s),
            Expr::Subseq(s) => format!("Subsequence({:?})", s),
            Expr::Always => "AlwaysMatch".to_string(),
            Expr::Dfa(d) => d.show(),
            Expr::StartsWith(a) => format!("{}.starts_with()", a.show()),
            Expr::Compl(a) => format!("{}.complement()", a.show()),
            Expr::Union(a, b) => format!("{}.union({})", a.show(), b.show()),
            Expr::Inter(a, b) => format!("{}.intersection({})", a.show(), b.show()),
        }
    }
    pub fn to_json(&self) -> Value {
        match self {
            Expr::Str(s) => json!({"str": s}),
            Expr::Subseq(s) => json!({"subseq": s}),
            Expr::Always => json!("always"),
            Expr::Dfa(d) => json!({"dfa": d.to_json()}),
            Expr::StartsWith(a) => json!({"starts_with": a.to_json()}),
            Expr::Compl(a) => json!({"complement": a.to_json()}),
            Expr::Union(a, b) => json!({"union": [a.to_json(), b.to_json()]}),
            Expr::Inter(a, b) => json!({"intersection": [a.to_json(), b.to_json()]}),
        }
    }
    pub fn from_json(v: &Value) -> Option<Expr> {
        if v.as_str() == Some("always") {
            return Some(Expr::Always);
        }
        let o = v.as_object()?;
        let (k, x) = o.iter().next()?;
        Some(match k.as_str() {
            "str" => Expr::Str(x.as_str()?.to_string()),
            "subseq" => Expr::Subseq(x.as_str()?.to_string()),
            "dfa" => Expr::Dfa(Dfa::from_json(x)?),
            "starts_with" => Expr::StartsWith(Box::new(Expr::from_json(x)?)),
            "complement" => Expr::Compl(Box::new(Expr::from_json(x)?)),
            "union" => {
                let a = x.as_array()?;
                Expr::Union(Box::new(Expr::from_json(a.get(0)?)?), Box::new(Expr::from_json(a.get(1)?)?))
            }
            "intersection" => {
                let a = x.as_array()?;
                Expr::Inter(Box::new(Expr::from_json(a.get(0)?)?), Box::new(Expr::from_json(a.get(1)?)?))
            }
            _ => return None,
        })
    }
    /// Build the real automaton with the crate's own types and combinators.
    pub fn build(&self) -> Erased {
        match self {
            Expr::Str(s) => Erased::new(Str::new(intern(s))),
            Expr::Subseq(s) => Erased::new(Subsequence::new(intern(s))),
            Expr::Always => Erased::new(AlwaysMatch),
            Expr::Dfa(d) => Erased::new(d.clone()),
            Expr::StartsWith(a) => Erased::new(a.build().starts_with()),
            Expr::Compl(a) => Erased::new(a.build().complement()),
            Expr::Union(a, b) => Erased::new(a.build().union(b.build())),
            Expr::Inter(a, b) => Erased::new(a.build().intersection(b.build())),
        }
    }
    pub fn has_nontrivial_hint_leaf(&self) -> bool {
        match self {
            Expr::Str(_) | Expr::Subseq(_) | Expr::Always => true,
            Expr::Dfa(d) => d.can.iter().any(|&c| !c) || d.always.iter().any(|&a| a),
            Expr::StartsWith(a) | Expr::Compl(a) => a.has_nontrivial_hint_leaf(),
            Expr::Union(a, b) | Expr::Inter(a, b) => a.has_nontrivial_hint_leaf() || b.has_nontrivial_hint_leaf(),
        }
    }
    pub fn contains_wrapper(&self) -> bool {
        match self {
            Expr::StartsWith(_) | Expr::Compl(_) => true,
            Expr::Union(a, b) | Expr::Inter(a, b) => a.contains_wrapper() || b.contains_wrapper(),
            _ => false,
        }
    }
    /// Bytes that the expression distinguishes individually.
    pub fn pattern_bytes(&self, out: &mut Vec<u8>) {
        match self {
            Expr::Str(s) | Expr::Subseq(s) => out.extend_from_slice(s.as_bytes()),
            Expr::Always | Expr::Dfa(_) => {}
            Expr::StartsWith(a) | Expr::Compl(a) => a.pattern_bytes(out),
            Expr::Union(a, b) | Expr::Inter(a, b) => {
                a.pattern_bytes(out);
                b.pattern_bytes(out);
            }
        }
    }

    // -- reference semantics: explicit state vectors -----------------------
    //
    // The reference state of an expression is a flat vector of numbers:
    //   Str(s):      [pos+1] or [0] when dead
    //   Subseq(s):   [matched prefix length]
    //   Always:      []
    //   Dfa(d):      [state]
    //   StartsWith:  [1] ++ zeros when latched, [0] ++ inner state otherwise
    //   Union/Inter: left ++ right
    //   Compl:       inner
    pub fn ref_width(&self) -> usize {
        match self {
            Expr::Str(_) | Expr::Subseq(_) | Expr::Dfa(_) => 1,
            Expr::Always => 0,
            Expr::StartsWith(a) => 1 + a.ref_width(),
            Expr::Compl(a) => a.ref_width(),
            Expr::Union(a, b) | Expr::Inter(a, b) => a.ref_width() + b.ref_width(),
        }
    }
    pub fn ref_start(&self) -> Vec<u32> {
        match self {
            Expr::Str(_) => vec![1],
            Expr::Subseq(_) => vec![0],
            Expr::Always => vec![],
            Expr::Dfa(_) => vec![0],
            Expr::StartsWith(a) => {
                let inner = a.ref_start();
                if a.ref_accepts(&inner) {
                    let mut v = vec![1];
                    v.extend(std::iter::repeat(0).take(a.ref_width()));
                    v
                } else {
                    let mut v = vec![0];
                    v.extend(inner);
                    v
                }
            }
            Expr::Compl(a) => a.ref_start(),
            Expr::Union(a, b) | Expr::Inter(a, b) => {
                let mut v = a.ref_start();
                v.extend(b.ref_start());
                v
            }
        }
    }
    pub fn ref_accepts(&self, st: &[u32]) -> bool {
        match self {
            Expr::Str(s) => st[0] as usize == s.len() + 1,
            Expr::Subseq(s) => st[0] as usize == s.len(),
            Expr::Always => true,
            Expr::Dfa(d) => d.accept[st[0] as usize],
            Expr::StartsWith(_) => st[0] == 1,
            Expr::Compl(a) => !a.ref_accepts(st),
            Expr::Union(a, b) => {
                let w = a.ref_width();
                a.ref_accepts(&st[..w]) || b.ref_accepts(&st[w..])
            }
            Expr::Inter(a, b) => {
                let w = a.ref_width();
                a.ref_accepts(&st[..w]) && b.ref_accepts(&st[w..])
            }
        }
    }
    pub fn ref_step(&self, st: &[u32], byte: u8) -> Vec<u32> {
        match self {
            Expr::Str(s) => {
                let p = st[0] as usize;
                if p >= 1 && p <= s.len() && s.as_bytes()[p - 1] == byte {
                    vec![p as u32 + 1]
                } else {
                    vec![0]
                }
            }
            Expr::Subseq(s) => {
                let p = st[0] as usize;
                if p < s.len() && s.as_bytes()[p] == byte {
                    vec![p as u32 + 1]
                } else {
                    vec![p as u32]
                }
            }
            Expr::Always => vec![],
            Expr::Dfa(d) => vec![d.trans[st[0] as usize][d.classes.class(byte)] as u32],
            Expr::StartsWith(a) => {
                if st[0] == 1 {
                    st.to_vec()
                } else {
                    let inner = a.ref_step(&st[1..], byte);
                    if a.ref_accepts(&inner) {
                        let mut v = vec![1];
                        v.extend(std::iter::repeat(0).take(a.ref_width()));
                        v
                    } else {
                        let mut v = vec![0];
                        v.extend(inner);
                        v
                    }
                }
            }
            Expr::Compl(a) => a.ref_step(st, byte),
            Expr::Union(a, b) | Expr::Inter(a, b) => {
                let w = a.ref_width();
                let mut v = a.ref_step(&st[..w], byte);
                v.extend(b.ref_step(&st[w..], byte));
                v
            }
        }
    }
    /// Direct, denotational membership (no state machine at all).
    pub fn denotes(&self, input: &[u8]) -> bool {
        match self {
            Expr::Str(s) => input == s.as_bytes(),
            Expr::Subseq(s) => {
                let mut it = input.iter();
                s.as_bytes().iter().all(|c| it.any(|x| x == c))
            }
            Expr::Always => true,
            Expr::Dfa(d) => d.accept[d.run(input)],
            Expr::StartsWith(a) => (0..=input.len()).any(|n| a.denotes(&input[..n])),
            Expr::Compl(a) => !a.denotes(input),
            Expr::Union(a, b) => a.denotes(input) || b.denotes(input),
            Expr::Inter(a, b) => a.denotes(input) && b.denotes(input),
        }
    }
}

pub fn pattern_strategy() -> impl Strategy<Value = String> {
    proptest::collection::vec(prop_oneof![Just('a'), Just('b'), Just('é')], 0..=3)
        .prop_map(|cs| cs.into_iter().collect())
}

pub fn leaf_strategy(max_states: usize) -> impl Strategy<Value = Expr> {
    prop_oneof![
        3 => pattern_strategy().prop_map(Expr::Str),
        3 => pattern_strategy().prop_map(Expr::Subseq),
        1 => Just(Expr::Always),
        4 => dfa_strategy(max_states).prop_map(Expr::Dfa),
    ]
}

pub fn expr_strategy(depth: u32, max_states: usize) -> impl Strategy<Value = Expr> {
    leaf_strategy(max_states).prop_recursive(depth, 12, 2, |inner| {
        prop_oneof![
            2 => inner.clone().prop_map(|a| Expr::StartsWith(Box::new(a))),
            2 => inner.clone().prop_map(|a| Expr::Compl(Box::new(a))),
            2 => (inner.clone(), inner.clone()).prop_map(|(a, b)| Expr::Union(Box::new(a), Box::new(b))),
            2 => (inner.clone(), inner).prop_map(|(a, b)| Expr::Inter(Box::new(a), Box::new(b))),
        ]
    })
}
