//! Runners (exhaustive enumerator, sharded proptest), statistics, evidence
//! and replay I/O shared by all property modules.

use std::collections::{BTreeMap, HashSet};
use std::fmt::Debug;
use std::panic::{self, AssertUnwindSafe};
use std::path::PathBuf;
use std::sync::atomic::{AtomicBool, AtomicU64, Ordering};
use std::sync::Mutex;
use std::time::Instant;

use proptest::strategy::Strategy;
use proptest::test_runner::{
    Config, RngSeed, TestCaseError, TestError, TestRunner,
};
use serde_json::{json, Value};

pub const VERIF_DIR: &str = "/verif";

/// Where a run writes (evidence, found replays, scratch). Defaults to
/// /verif; selftest runs against mutated scratch copies redirect it.
pub fn out_dir() -> String {
    std::env::var("VERIF_OUT").unwrap_or_else(|_| VERIF_DIR.to_string())
}

#[derive(Clone, Copy, Debug, PartialEq, Eq)]
pub enum Tier {
    Quick,
    Thorough,
}

impl Tier {
    pub fn name(self) -> &'static str {
        match self {
            Tier::Quick => "quick",
            Tier::Thorough => "thorough",
        }
    }
    /// Pick a size by tier.
    pub fn pick<T>(self, quick: T, thorough: T) -> T {
        match self {
            Tier::Quick => quick,
            Tier::Thorough => thorough,
        }
    }
}

/// A failed case: what went wrong, the case (JSON, replayable) and a
/// signature used to match entries of known_findings.txt.
#[derive(Clone, Debug)]
pub struct Fail {
    pub msg: String,
    pub sig: String,
}

impl Fail {
    pub fn new(sig: &str, msg: String) -> Fail {
        Fail { msg, sig: sig.to_string() }
    }
}

pub type CheckResult = Result<(), Fail>;

#[macro_export]
macro_rules! vfail {
    ($sig:expr, $($arg:tt)*) => {
        return Err($crate::engine::Fail::new($sig, format!($($arg)*)))
    };
}

#[macro_export]
macro_rules! vensure {
    ($cond:expr, $sig:expr, $($arg:tt)*) => {
        if !($cond) {
            return Err($crate::engine::Fail::new($sig, format!($($arg)*)));
        }
    };
}

/// Thread-local recorder handed to check functions.
#[derive(Default)]
pub struct Rec {
    pub evaluations: u64,
    pub nontrivial: HashSet<u64>,
    pub classes: BTreeMap<String, u64>,
    pub samples: Vec<Value>,
    pub extra_evals: u64,
    /// non-trivial cases of an enumeration whose index->case map is
    /// injective (distinct by construction, counted instead of hashed)
    pub nontrivial_counted: u64,
    sample_budget: usize,
    /// When true the recorder ignores everything (used while shrinking).
    pub muted: bool,
}

impl Rec {
    pub fn new(sample_budget: usize) -> Rec {
        Rec { sample_budget, ..Rec::default() }
    }
    #[inline]
    pub fn eval(&mut self) {
        if !self.muted {
            self.evaluations += 1;
        }
    }
    #[inline]
    pub fn evals(&mut self, n: u64) {
        if !self.muted {
            self.evaluations += n;
        }
    }
    #[inline]
    pub fn nontrivial(&mut self, h: u64) {
        if !self.muted {
            self.nontrivial.insert(h);
        }
    }
    #[inline]
    pub fn nontrivial_by_construction(&mut self) {
        if !self.muted {
            self.nontrivial_counted += 1;
        }
    }
    #[inline]
    pub fn class(&mut self, name: &str) {
        if !self.muted {
            *self.classes.entry(name.to_string()).or_insert(0) += 1;
        }
    }
    #[inline]
    pub fn class_n(&mut self, name: &str, n: u64) {
        if !self.muted && n > 0 {
            *self.classes.entry(name.to_string()).or_insert(0) += n;
        }
    }
    pub fn wants_sample(&self) -> bool {
        !self.muted && self.samples.len() < self.sample_budget
    }
    pub fn sample(&mut self, v: Value) {
        if self.wants_sample() {
            self.samples.push(v);
        }
    }
}

pub struct Violation {
    pub subcheck: String,
    pub case: Value,
    pub fail: Fail,
    pub replay: PathBuf,
    pub known: bool,
}

pub struct Known {
    pub property: String,
    pub signature: String,
    pub text: String,
}

pub struct Engine {
    pub prop: &'static str,
    pub level: &'static str,
    pub tier: Tier,
    pub seed: u64,
    pub threads: usize,
    pub strict: bool,
    /// proptest shrink budget (lower for checks whose cases are expensive)
    pub max_shrink_iters: std::sync::atomic::AtomicU32,
    start: Instant,
    evaluations: AtomicU64,
    nontrivial_counted: AtomicU64,
    nontrivial: Mutex<HashSet<u64>>,
    classes: Mutex<BTreeMap<String, u64>>,
    samples: Mutex<Vec<Value>>,
    subchecks: Mutex<Vec<Value>>,
    violations: Mutex<Vec<Violation>>,
    known: Vec<Known>,
    extra: Mutex<BTreeMap<String, Value>>,
    exhaustive: AtomicBool,
    any_sub: AtomicBool,
    inconclusive: Mutex<Vec<String>>,
    rule: Mutex<String>,
    assumptions: Mutex<Vec<String>>,
}

pub fn fnv(data: &[u8]) -> u64 {
    let mut h: u64 = 0xcbf29ce484222325;
    for &b in data {
        h ^= b as u64;
        h = h.wrapping_mul(0x100000001b3);
    }
    h
}

pub fn mix(a: u64, b: u64) -> u64 {
    let mut x = a ^ b.wrapping_mul(0x9E3779B97F4A7C15);
    x ^= x >> 30;
    x = x.wrapping_mul(0xBF58476D1CE4E5B9);
    x ^= x >> 27;
    x = x.wrapping_mul(0x94D049BB133111EB);
    x ^= x >> 31;
    x
}

/// A tiny deterministic hasher for building distinctness keys.
#[derive(Clone, Copy)]
pub struct H(pub u64);
impl H {
    pub fn new() -> H {
        H(0x1234_5678_9abc_def1)
    }
    pub fn u(mut self, v: u64) -> H {
        self.0 = mix(self.0, v);
        self
    }
    pub fn b(mut self, v: &[u8]) -> H {
        self.0 = mix(self.0, fnv(v) ^ (v.len() as u64).rotate_left(32));
        self
    }
    pub fn pairs(mut self, ps: &[(Vec<u8>, u64)]) -> H {
        for (k, v) in ps {
            self = self.b(k).u(*v);
        }
        self.u(ps.len() as u64)
    }
    pub fn get(self) -> u64 {
        self.0
    }
}

pub fn hex(b: &[u8]) -> String {
    let mut s = String::with_capacity(b.len() * 2);
    for x in b {
        s.push_str(&format!("{:02x}", x));
    }
    s
}

pub fn unhex(s: &str) -> Option<Vec<u8>> {
    if s.len() % 2 != 0 {
        return None;
    }
    let mut out = Vec::with_capacity(s.len() / 2);
    for i in (0..s.len()).step_by(2) {
        out.push(u8::from_str_radix(s.get(i..i + 2)?, 16).ok()?);
    }
    Some(out)
}

/// Human-friendly rendering for samples: printable ASCII as is, else hex.
pub fn show(b: &[u8]) -> String {
    if b.iter().all(|&c| (0x20..0x7f).contains(&c) && c != b'\\') {
        format!("'{}'", String::from_utf8_lossy(b))
    } else {
        format!("x{}", hex(b))
    }
}

pub fn pairs_json(ps: &[(Vec<u8>, u64)]) -> Value {
    Value::Array(
        ps.iter().map(|(k, v)| json!([hex(k), v.to_string()])).collect(),
    )
}

pub fn pairs_from_json(v: &Value) -> Option<Vec<(Vec<u8>, u64)>> {
    let mut out = vec![];
    for item in v.as_array()? {
        let a = item.as_array()?;
        let k = unhex(a.get(0)?.as_str()?)?;
        let val = a.get(1)?.as_str()?.parse::<u64>().ok()?;
        out.push((k, val));
    }
    Some(out)
}

pub fn keys_json(ks: &[Vec<u8>]) -> Value {
    Value::Array(ks.iter().map(|k| json!(hex(k))).collect())
}

pub fn keys_from_json(v: &Value) -> Option<Vec<Vec<u8>>> {
    v.as_array()?.iter().map(|x| unhex(x.as_str()?)).collect()
}

/// Run `f`, turning a panic into an `Err(message)`.
pub fn catch<T>(f: impl FnOnce() -> T) -> Result<T, String> {
    match panic::catch_unwind(AssertUnwindSafe(f)) {
        Ok(v) => Ok(v),
        Err(p) => {
            let msg = if let Some(s) = p.downcast_ref::<&str>() {
                s.to_string()
            } else if let Some(s) = p.downcast_ref::<String>() {
                s.clone()
            } else {
                "<non-string panic>".to_string()
            };
            Err(msg)
        }
    }
}

/// Run a check function under catch_unwind; a panic anywhere (in the crate
/// under test or in the oracle) is reported as a failure with sig "panic".
pub fn guarded(f: impl FnOnce() -> CheckResult) -> CheckResult {
    match catch(f) {
        Ok(r) => r,
        Err(msg) => Err(Fail::new("panic", format!("panic: {}", msg))),
    }
}

fn load_known(prop: &str) -> Vec<Known> {
    let path = format!("{}/known_findings.txt", VERIF_DIR);
    let text = std::fs::read_to_string(path).unwrap_or_default();
    let mut out = vec![];
    for line in text.lines() {
        let line = line.trim();
        // known: property=<id> signature=<sig> <text>
        if let Some(rest) = line.strip_prefix("known:") {
            let mut property = String::new();
            let mut signature = String::new();
            let mut text = vec![];
            for tok in rest.split_whitespace() {
                if let Some(p) = tok.strip_prefix("property=") {
                    property = p.to_string();
                } else if let Some(s) = tok.strip_prefix("signature=") {
                    signature = s.to_string();
                } else {
                    text.push(tok);
                }
            }
            if property == prop && !signature.is_empty() {
                out.push(Known { property, signature, text: text.join(" ") });
            }
        }
    }
    out
}

impl Engine {
    pub fn new(
        prop: &'static str,
        level: &'static str,
        tier: Tier,
        seed: u64,
    ) -> Engine {
        let threads = std::env::var("VERIF_THREADS")
            .ok()
            .and_then(|s| s.parse().ok())
            .unwrap_or_else(|| {
                std::thread::available_parallelism()
                    .map(|n| n.get())
                    .unwrap_or(4)
                    .min(16)
            });
        Engine {
            prop,
            level,
            tier,
            seed,
            threads,
            strict: false,
            max_shrink_iters: std::sync::atomic::AtomicU32::new(4000),
            start: Instant::now(),
            evaluations: AtomicU64::new(0),
            nontrivial_counted: AtomicU64::new(0),
            nontrivial: Mutex::new(HashSet::new()),
            classes: Mutex::new(BTreeMap::new()),
            samples: Mutex::new(vec![]),
            subchecks: Mutex::new(vec![]),
            violations: Mutex::new(vec![]),
            known: load_known(prop),
            extra: Mutex::new(BTreeMap::new()),
            exhaustive: AtomicBool::new(true),
            any_sub: AtomicBool::new(false),
            inconclusive: Mutex::new(vec![]),
            rule: Mutex::new(String::new()),
            assumptions: Mutex::new(vec![]),
        }
    }

    pub fn set_rule(&self, rule: &str) {
        *self.rule.lock().unwrap() = rule.to_string();
    }

    pub fn assume(&self, a: &str) {
        self.assumptions.lock().unwrap().push(a.to_string());
    }

    pub fn extra(&self, key: &str, v: Value) {
        self.extra.lock().unwrap().insert(key.to_string(), v);
    }

    pub fn sub_seed(&self, sub: &str, shard: u64) -> u64 {
        mix(mix(self.seed, fnv(self.prop.as_bytes())), mix(fnv(sub.as_bytes()), shard))
    }

    pub fn has_violation(&self) -> bool {
        self.violations.lock().unwrap().iter().any(|v| !v.known)
    }

    pub fn class_count(&self, name: &str) -> u64 {
        self.classes.lock().unwrap().get(name).copied().unwrap_or(0)
    }

    /// Declare the run inconclusive (exit 2) — used by vacuity guards.
    pub fn inconclusive(&self, why: String) {
        self.inconclusive.lock().unwrap().push(why);
    }

    /// Vacuity guard: the named class must have been seen at least `min`
    /// times, otherwise the run is inconclusive (never a violation).
    pub fn require_class(&self, name: &str, min: u64) {
        let n = self.class_count(name);
        if n < min {
            self.inconclusive(format!(
                "class '{}' seen {} times, needs >= {}",
                name, n, min
            ));
        }
    }

    /// Soft variant of `require_class` for classes whose frequency depends on choices the
    /// implementation is free to make (which call a buffered write surfaces in, how permissive
    /// `Fst::new` is, how many DFA states a construction needs ...): a shortfall is written to
    /// the evidence as a coverage note and printed, but the run stays conclusive.
    pub fn expect_class(&self, name: &str, min: u64) {
        let n = self.class_count(name);
        if n < min {
            eprintln!("[{}] NOTE: implementation-dependent class '{}' seen {} times (expected >= {}); not required", self.prop, name, n, min);
            let mut x = self.extra.lock().unwrap();
            let e = x.entry("coverage_notes".into()).or_insert_with(|| json!([]));
            if let Some(a) = e.as_array_mut() {
                a.push(json!(format!("class '{}' seen {} times, expected >= {} (implementation-dependent, not required)", name, n, min)));
            }
        }
    }

    fn merge(&self, rec: Rec, sub: &str) {
        self.evaluations.fetch_add(rec.evaluations, Ordering::SeqCst);
        self.nontrivial_counted.fetch_add(rec.nontrivial_counted, Ordering::SeqCst);
        self.nontrivial.lock().unwrap().extend(rec.nontrivial);
        {
            let mut c = self.classes.lock().unwrap();
            for (k, v) in rec.classes {
                *c.entry(k).or_insert(0) += v;
            }
        }
        let mut s = self.samples.lock().unwrap();
        for v in rec.samples {
            let have = s
                .iter()
                .filter(|x| x.get("subcheck").and_then(|y| y.as_str()) == Some(sub))
                .count();
            if have < 3 && s.len() < 40 {
                s.push(json!({"subcheck": sub, "case": v}));
            }
        }
    }

    /// Replayability audit (VERIF_DUMP_CASES=1): save one generated case per sub-check in the
    /// replay format, so that `--replay` can be exercised on every case shape without a failure.
    fn dump_case(&self, subcheck: &str, case: Value) {
        let dir = format!("{}/replays/dump", out_dir());
        let _ = std::fs::create_dir_all(&dir);
        let doc = json!({"property": self.prop, "subcheck": subcheck, "signature": "dump", "message": "", "case": case});
        let _ = std::fs::write(format!("{}/{}-{}.json", dir, self.prop, subcheck.replace('/', "_")), serde_json::to_string_pretty(&doc).unwrap());
    }

    pub fn report(&self, subcheck: &str, case: Value, fail: Fail) {
        let known = self
            .known
            .iter()
            .find(|k| k.signature == fail.sig)
            .map(|k| k.text.clone());
        let digest = fnv(serde_json::to_string(&case).unwrap().as_bytes());
        let dir = format!("{}/replays/found", out_dir());
        let _ = std::fs::create_dir_all(&dir);
        let path = PathBuf::from(format!(
            "{}/{}-{}-{:016x}.json",
            dir, self.prop, subcheck, digest
        ));
        let doc = json!({
            "property": self.prop,
            "subcheck": subcheck,
            "signature": fail.sig,
            "message": fail.msg,
            "case": case,
        });
        let mut vs = self.violations.lock().unwrap();
        // One report per (subcheck, signature) is enough.
        if vs
            .iter()
            .any(|v| v.subcheck == subcheck && v.fail.sig == fail.sig)
        {
            return;
        }
        if known.is_none() {
            let _ = std::fs::write(
                &path,
                serde_json::to_string_pretty(&doc).unwrap(),
            );
            println!(
                "VIOLATION property={} replay={}",
                self.prop,
                path.display()
            );
            println!("  subcheck={} signature={}", subcheck, fail.sig);
            println!("  {}", truncate(&fail.msg, 2000));
        } else {
            println!(
                "KNOWN-FINDING: property={} {} (signature={}, subcheck={})",
                self.prop,
                known.clone().unwrap(),
                fail.sig,
                subcheck
            );
        }
        vs.push(Violation {
            subcheck: subcheck.to_string(),
            case,
            fail,
            replay: path,
            known: known.is_some(),
        });
    }

    /// Once a violation has been reported the remaining sub-checks are
    /// skipped: the verdict is already decided and a broken tree can make
    /// later sub-checks arbitrarily slow (e.g. expensive shrinking).
    fn skip_after_violation(&self, name: &str) -> bool {
        if self.has_violation() && std::env::var("VERIF_KEEP_GOING").is_err() {
            self.subchecks.lock().unwrap().push(json!({"name": name, "skipped": "a violation was already reported"}));
            eprintln!("[{}] {:<28} skipped (a violation was already reported)", self.prop, name);
            true
        } else {
            false
        }
    }

    pub fn add_evaluations(&self, n: u64) {
        self.evaluations.fetch_add(n, Ordering::SeqCst);
        self.exhaustive.store(false, Ordering::SeqCst);
    }

    /// A violation found by an external engine (libFuzzer) whose replay file
    /// already exists; the VIOLATION line has been printed by the caller.
    pub fn note_external_violation(&self, subcheck: &str, case: Value, fail: Fail, replay: PathBuf) {
        let known = self.known.iter().any(|k| k.signature == fail.sig);
        self.violations.lock().unwrap().push(Violation { subcheck: subcheck.to_string(), case, fail, replay, known });
    }

    fn note_sub(&self, name: &str, kind: &str, evals: u64, exhaustive: bool, t: f64) {
        self.any_sub.store(true, Ordering::SeqCst);
        if !exhaustive {
            self.exhaustive.store(false, Ordering::SeqCst);
        }
        self.subchecks.lock().unwrap().push(json!({
            "name": name, "kind": kind, "evaluations": evals,
            "exhaustive": exhaustive, "wall_s": (t * 100.0).round() / 100.0,
        }));
        eprintln!(
            "[{}] {:<28} {:<10} evals={:<10} {:.2}s",
            self.prop, name, kind, evals, t
        );
    }

    /// Exhaustive enumeration of `total` indexed cases, split over threads.
    /// `f(idx, rec)` returns Err((case_json, fail)) on a violation. Index
    /// order is smallest-first, and the smallest failing index is reported.
    pub fn run_enum<F>(&self, name: &str, total: u64, f: F)
    where
        F: Fn(u64, &mut Rec) -> Result<(), (Value, Fail)> + Sync,
    {
        if self.skip_after_violation(name) {
            return;
        }
        let t0 = Instant::now();
        let next = AtomicU64::new(0);
        let chunk = (total / (self.threads as u64 * 64)).clamp(1, 4096);
        let best: Mutex<Option<(u64, Value, Fail)>> = Mutex::new(None);
        let stop_at = AtomicU64::new(u64::MAX);
        let evals_before = self.evaluations.load(Ordering::SeqCst);
        std::thread::scope(|s| {
            for _ in 0..self.threads {
                s.spawn(|| {
                    let mut rec = Rec::new(3);
                    loop {
                        let lo = next.fetch_add(chunk, Ordering::SeqCst);
                        if lo >= total || lo >= stop_at.load(Ordering::SeqCst)
                        {
                            break;
                        }
                        let hi = (lo + chunk).min(total);
                        for idx in lo..hi {
                            if idx >= stop_at.load(Ordering::SeqCst) {
                                break;
                            }
                            let r = match catch(|| f(idx, &mut rec)) {
                                Ok(r) => r,
                                Err(msg) => Err((
                                    json!({"enum_index": idx}),
                                    Fail::new(
                                        "harness-panic",
                                        format!("panic outside guarded region: {}", msg),
                                    ),
                                )),
                            };
                            if let Err((case, fail)) = r {
                                let mut b = best.lock().unwrap();
                                let better = b
                                    .as_ref()
                                    .map(|(i, _, _)| idx < *i)
                                    .unwrap_or(true);
                                if better {
                                    *b = Some((idx, case, fail));
                                }
                                stop_at.fetch_min(idx, Ordering::SeqCst);
                                break;
                            }
                        }
                    }
                    self.merge(rec, name);
                });
            }
        });
        let failed = best.lock().unwrap().take();
        let complete = failed.is_none();
        if let Some((_, case, fail)) = failed {
            self.report(name, case, fail);
        }
        let evals = self.evaluations.load(Ordering::SeqCst) - evals_before;
        self.note_sub(name, "enum", evals, complete, t0.elapsed().as_secs_f64());
    }

    /// Sharded proptest run: `cases` cases in total, generated by `strat`,
    /// checked by `f`. On failure the case is shrunk by proptest and the
    /// minimal case is reported through `to_json`.
    pub fn run_prop<S, F, J>(
        &self,
        name: &str,
        cases: u64,
        strat: impl Fn() -> S + Sync,
        to_json: J,
        f: F,
    ) where
        S: Strategy,
        S::Value: Debug,
        F: Fn(&S::Value, &mut Rec) -> CheckResult + Sync,
        J: Fn(&S::Value) -> Value + Sync,
    {
        if self.skip_after_violation(name) {
            return;
        }
        let t0 = Instant::now();
        let shards = (self.threads as u64).min(cases.max(1));
        let per = (cases + shards - 1) / shards;
        let evals_before = self.evaluations.load(Ordering::SeqCst);
        let found = AtomicBool::new(false);
        std::thread::scope(|s| {
            for shard in 0..shards {
                let strat = &strat;
                let f = &f;
                let to_json = &to_json;
                let found = &found;
                s.spawn(move || {
                    let mut config = Config::default();
                    config.cases = per as u32;
                    config.failure_persistence = None;
                    config.rng_seed = RngSeed::Fixed(self.sub_seed(name, shard));
                    config.max_shrink_iters = self.max_shrink_iters.load(Ordering::SeqCst);
                    config.max_shrink_time = 45_000; // ms; shrinking is best-effort, the unshrunk case is still a valid replay
                    config.verbose = 0;
                    config.source_file = None;
                    config.max_global_rejects = 1_000_000;
                    let mut runner = TestRunner::new(config);
                    let rec = std::cell::RefCell::new(Rec::new(3));
                    let failed_once = std::cell::Cell::new(false);
                    let dumped = std::cell::Cell::new(shard != 0 || std::env::var_os("VERIF_DUMP_CASES").is_none());
                    let result = runner.run(&strat(), |case| {
                        if !dumped.get() {
                            dumped.set(true);
                            self.dump_case(name, to_json(&case));
                        }
                        if found.load(Ordering::Relaxed)
                            && !failed_once.get()
                        {
                            // Another shard already has a failure; finish
                            // quickly without counting.
                            return Ok(());
                        }
                        let mut r = rec.borrow_mut();
                        r.muted = failed_once.get();
                        let out = guarded(|| f(&case, &mut r));
                        match out {
                            Ok(()) => Ok(()),
                            Err(fail) => {
                                failed_once.set(true);
                                Err(TestCaseError::fail(format!(
                                    "{}\u{1}{}",
                                    fail.sig, fail.msg
                                )))
                            }
                        }
                    });
                    if let Err(TestError::Fail(reason, value)) = result {
                        found.store(true, Ordering::SeqCst);
                        let reason = reason.message().to_string();
                        let (sig, msg) = match reason.split_once('\u{1}') {
                            Some((a, b)) => (a.to_string(), b.to_string()),
                            None => ("unknown".to_string(), reason),
                        };
                        self.report(name, to_json(&value), Fail { msg, sig });
                    } else if let Err(TestError::Abort(reason)) = result {
                        self.inconclusive(format!(
                            "proptest aborted in {}: {}",
                            name,
                            reason.message()
                        ));
                    }
                    let mut r = rec.into_inner();
                    r.muted = false;
                    self.merge(r, name);
                });
            }
        });
        let evals = self.evaluations.load(Ordering::SeqCst) - evals_before;
        self.note_sub(name, "proptest", evals, false, t0.elapsed().as_secs_f64());
    }

    /// Run a list of explicit cases in parallel (regression replays, golden
    /// files, fixed configurations).
    pub fn run_list<T: Sync, F, J>(&self, name: &str, items: &[T], to_json: J, f: F)
    where
        F: Fn(&T, &mut Rec) -> CheckResult + Sync,
        J: Fn(&T) -> Value + Sync,
    {
        if self.skip_after_violation(name) {
            return;
        }
        let t0 = Instant::now();
        if std::env::var_os("VERIF_DUMP_CASES").is_some() {
            if let Some(it) = items.first() {
                self.dump_case(name, to_json(it));
            }
        }
        let evals_before = self.evaluations.load(Ordering::SeqCst);
        let next = AtomicU64::new(0);
        std::thread::scope(|s| {
            for _ in 0..self.threads.min(items.len().max(1)) {
                s.spawn(|| {
                    let mut rec = Rec::new(3);
                    loop {
                        let i = next.fetch_add(1, Ordering::SeqCst) as usize;
                        if i >= items.len() {
                            break;
                        }
                        if let Err(fail) = guarded(|| f(&items[i], &mut rec)) {
                            self.report(name, to_json(&items[i]), fail);
                        }
                    }
                    self.merge(rec, name);
                });
            }
        });
        let evals = self.evaluations.load(Ordering::SeqCst) - evals_before;
        self.note_sub(name, "list", evals, false, t0.elapsed().as_secs_f64());
    }

    /// Write the evidence file, print a summary and return the exit code.
    pub fn finish(&self) -> i32 {
        let wall = self.start.elapsed().as_secs_f64();
        let vs = self.violations.lock().unwrap();
        let n_viol = vs.iter().filter(|v| !v.known).count();
        let n_known = vs.iter().filter(|v| v.known).count();
        let mut coverage = serde_json::Map::new();
        let evals = self.evaluations.load(Ordering::SeqCst);
        coverage.insert("evaluations".into(), json!(evals));
        let distinct = self.nontrivial.lock().unwrap().len() as u64
            + self.nontrivial_counted.load(Ordering::SeqCst);
        coverage.insert("distinct_nontrivial".into(), json!(distinct));
        coverage.insert(
            "distinct_nontrivial_hashed".into(),
            json!(self.nontrivial.lock().unwrap().len()),
        );
        coverage.insert(
            "distinct_nontrivial_by_construction".into(),
            json!(self.nontrivial_counted.load(Ordering::SeqCst)),
        );
        coverage.insert("rule".into(), json!(*self.rule.lock().unwrap()));
        coverage.insert(
            "samples".into(),
            Value::Array(self.samples.lock().unwrap().clone()),
        );
        coverage.insert(
            "classes".into(),
            json!(*self.classes.lock().unwrap()),
        );
        coverage.insert(
            "subchecks".into(),
            Value::Array(self.subchecks.lock().unwrap().clone()),
        );
        coverage.insert(
            "exhaustive".into(),
            json!(
                self.any_sub.load(Ordering::SeqCst)
                    && self.exhaustive.load(Ordering::SeqCst)
            ),
        );
        coverage.insert("known_findings_seen".into(), json!(n_known));
        for (k, v) in self.extra.lock().unwrap().iter() {
            coverage.insert(k.clone(), v.clone());
        }
        let inconclusive = self.inconclusive.lock().unwrap().clone();
        if !inconclusive.is_empty() {
            coverage.insert("inconclusive".into(), json!(inconclusive));
        }
        let doc = json!({
            "property_id": self.prop,
            "tier": self.tier.name(),
            "seed": self.seed,
            "level": self.level,
            "coverage": Value::Object(coverage),
            "assumptions": *self.assumptions.lock().unwrap(),
            "wall_s": (wall * 100.0).round() / 100.0,
            "violations": n_viol,
        });
        let dir = format!("{}/evidence", out_dir());
        let _ = std::fs::create_dir_all(&dir);
        let path = format!("{}/{}.json", dir, self.prop);
        std::fs::write(&path, serde_json::to_string_pretty(&doc).unwrap())
            .expect("write evidence");
        eprintln!(
            "[{}] tier={} seed={} evaluations={} distinct_nontrivial={} violations={} known={} wall={:.1}s",
            self.prop,
            self.tier.name(),
            self.seed,
            evals,
            distinct,
            n_viol,
            n_known,
            wall
        );
        if n_viol > 0 {
            1
        } else if !inconclusive.is_empty() {
            for w in &inconclusive {
                eprintln!("[{}] INCONCLUSIVE: {}", self.prop, w);
            }
            2
        } else {
            0
        }
    }
}

pub fn truncate(s: &str, n: usize) -> String {
    if s.len() <= n {
        s.to_string()
    } else {
        let mut end = n;
        while !s.is_char_boundary(end) {
            end -= 1;
        }
        format!("{}…", &s[..end])
    }
}

/// Install a panic hook that stays silent (panics are caught and reported
/// as violations with their message; the default hook would flood stderr
/// during shrinking).
pub fn silence_panics() {
    if std::env::var_os("VERIF_SHOW_PANICS").is_some() {
        // debugging aid: print where caught panics come from
        panic::set_hook(Box::new(|info| {
            eprintln!("[panic] {}\n{}", info, std::backtrace::Backtrace::force_capture());
        }));
        return;
    }
    panic::set_hook(Box::new(|_| {}));
}
