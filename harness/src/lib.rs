//! `vf` — verification harness for BurntSushi/fst (property-based testing
//! and fuzzing). Library part: engine, generators, oracles and one module
//! per property; used by the `vf` binary and by the fuzz targets in
//! /verif/fuzz. See /verif/DESIGN.md.

#[macro_use]
pub mod engine;
pub mod alloc;
pub mod aut;
pub mod crcref;
pub mod frozen_common_inputs;
pub mod fuzzdec;
pub mod fuzzrun;
pub mod gen;
pub mod oracle;
pub mod props;
pub mod refcodec;
pub mod sinks;
