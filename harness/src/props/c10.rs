//! C10 Readers accept every supported format version and previously
//! written files.

use std::borrow::Cow;
use std::io::Write;
use std::sync::Arc;

use proptest::prelude::*;
use serde_json::{json, Value};

use crate::engine::{hex, pairs_from_json, pairs_json, unhex, CheckResult, Engine, Fail, Rec, H, VERIF_DIR};
use crate::gen::{self, Pairs};
use crate::oracle;
use crate::props::c01::bad;
use crate::refcodec::{self, Policy};

#[derive(Clone, Copy, Debug, PartialEq, Eq)]
pub enum Container {
    VecU8,
    Slice,
    Boxed,
    ArcSlice,
    CowBorrowed,
    CowOwned,
    Mmap,
    MapData,
}

const CONTAINERS: [Container; 8] = [
    Container::VecU8,
    Container::Slice,
    Container::Boxed,
    Container::ArcSlice,
    Container::CowBorrowed,
    Container::CowOwned,
    Container::Mmap,
    Container::MapData,
];

#[derive(Clone, Debug)]
pub struct Case {
    pub pairs: Pairs,
    pub version: u64,
    pub ty: u64,
    pub policy: Policy,
    pub container: u8,
}

impl Case {
    fn to_json(&self) -> Value {
        json!({"pairs": pairs_json(&self.pairs), "version": self.version, "type": self.ty.to_string(),
               "share": self.policy.share, "use_otn": self.policy.use_otn, "wide": self.policy.wide, "container": self.container})
    }
    fn from_json(v: &Value) -> Option<Case> {
        Some(Case {
            pairs: pairs_from_json(v.get("pairs")?)?,
            version: v.get("version")?.as_u64()?,
            ty: v.get("type")?.as_str()?.parse().ok()?,
            policy: Policy { share: v.get("share")?.as_bool()?, use_otn: v.get("use_otn")?.as_bool()?, wide: v.get("wide")?.as_bool()? },
            container: v.get("container")?.as_u64()? as u8,
        })
    }
}

/// Everything a reader must do with a well-formed file of any version.
fn check_file(bytes: &[u8], version: u64, ty: u64, pairs: &Pairs, container: Container, what: &str) -> CheckResult {
    // verify() and metadata through the requested container
    fn meta<D: AsRef<[u8]>>(f: &fst::raw::Fst<D>, version: u64, ty: u64, n: usize, what: &str, cname: &str) -> CheckResult {
        vensure!(f.len() == n, "len", "{} via {}: len()={} but the file holds {} keys", what, cname, f.len(), n);
        vensure!(f.fst_type() == ty, "type", "{} via {}: fst_type()={} but the header says {}", what, cname, f.fst_type(), ty);
        match (version, f.verify()) {
            (3, Ok(())) => Ok(()),
            (1, Err(fst::Error::Fst(fst::raw::Error::ChecksumMissing))) | (2, Err(fst::Error::Fst(fst::raw::Error::ChecksumMissing))) => Ok(()),
            (_, r) => Err(Fail::new("verify", format!("{} via {}: verify() returned {:?} for a well-formed version-{} file", what, cname, r.map_err(|e| format!("{:?}", e)), version))),
        }
    }
    let open_err = |e: fst::Error, cname: &str| Fail::new(if bytes.len() < 36 { "open-short-old-version" } else { "open-failed" }, format!("{} ({} bytes, version {}) does not open via {}: {:?}; content {}", what, bytes.len(), version, cname, e, oracle::keys_show(pairs)));
    let n = pairs.len();
    match container {
        Container::VecU8 => meta(&fst::raw::Fst::new(bytes.to_vec()).map_err(|e| open_err(e, "Vec<u8>"))?, version, ty, n, what, "Vec<u8>")?,
        Container::Slice => meta(&fst::raw::Fst::new(bytes).map_err(|e| open_err(e, "&[u8]"))?, version, ty, n, what, "&[u8]")?,
        Container::Boxed => {
            let b: Box<[u8]> = bytes.to_vec().into_boxed_slice();
            meta(&fst::Map::new(b).map_err(|e| open_err(e, "Box<[u8]>"))?.into_fst(), version, ty, n, what, "Box<[u8]>")?
        }
        Container::ArcSlice => {
            let a: Arc<[u8]> = Arc::from(bytes.to_vec());
            let f = fst::Set::new(a).map_err(|e| open_err(e, "Arc<[u8]>"))?.into_fst();
            let g = f.clone();
            meta(&g, version, ty, n, what, "Arc<[u8]> (clone)")?
        }
        Container::CowBorrowed => meta(&fst::raw::Fst::new(Cow::Borrowed(bytes)).map_err(|e| open_err(e, "Cow::Borrowed"))?, version, ty, n, what, "Cow::Borrowed")?,
        Container::CowOwned => {
            let c: Cow<[u8]> = Cow::Owned(bytes.to_vec());
            meta(&fst::raw::Fst::new(c).map_err(|e| open_err(e, "Cow::Owned"))?, version, ty, n, what, "Cow::Owned")?
        }
        Container::Mmap => {
            let dir = format!("{}/work/c10", crate::engine::out_dir());
            let _ = std::fs::create_dir_all(&dir);
            let path = format!("{}/{:?}-{:016x}.fst", dir, std::thread::current().id(), crate::engine::fnv(bytes));
            {
                let mut fh = std::fs::File::create(&path).map_err(|e| Fail::new("harness-io", format!("{}", e)))?;
                fh.write_all(bytes).map_err(|e| Fail::new("harness-io", format!("{}", e)))?;
            }
            let fh = std::fs::File::open(&path).map_err(|e| Fail::new("harness-io", format!("{}", e)))?;
            let mm = unsafe { memmap2::Mmap::map(&fh) }.map_err(|e| Fail::new("harness-io", format!("{}", e)))?;
            let r = fst::raw::Fst::new(mm);
            let out = match r {
                Ok(f) => {
                    let got = gen::collect_stream(f.stream());
                    if &got != pairs {
                        Err(Fail::new("stream-mismatch", format!("{} via Mmap: stream yields {} but content is {}", what, oracle::keys_show(&got), oracle::keys_show(pairs))))
                    } else {
                        meta(&f, version, ty, n, what, "Mmap")
                    }
                }
                Err(e) => Err(open_err(e, "Mmap")),
            };
            let _ = std::fs::remove_file(&path);
            out?
        }
        Container::MapData => {
            let f = fst::raw::Fst::new(bytes.to_vec()).map_err(|e| open_err(e, "Vec<u8>"))?;
            let g = f.map_data(|v| -> Arc<[u8]> { Arc::from(v) }).map_err(|e| open_err(e, "map_data(Vec -> Arc)"))?;
            meta(&g, version, ty, n, what, "map_data(Vec -> Arc<[u8]>)")?;
            let m = fst::Map::new(bytes.to_vec()).map_err(|e| open_err(e, "Vec<u8>"))?;
            let m2 = m.map_data(|v| v.into_boxed_slice()).map_err(|e| open_err(e, "Map::map_data"))?;
            vensure!(m2.len() == n, "len", "{}: Map::map_data changed len", what);
        }
    }
    // content: full stream always; the whole query suite for small files
    // and once per file (through the slice container) for large ones
    if pairs.len() > 200 && container != Container::Slice {
        let f = fst::raw::Fst::new(bytes).map_err(|e| open_err(e, "&[u8]"))?;
        let got = gen::collect_stream(f.stream());
        vensure!(&got == pairs, "stream-mismatch", "{} (version {}): stream differs from the content", what, version);
        return Ok(());
    }
    oracle::query_suite(bytes, pairs).map_err(|f| Fail::new(&f.sig, format!("{} (version {}): {}", what, version, f.msg)))
}

pub fn check(c: &Case, rec: &mut Rec) -> CheckResult {
    rec.eval();
    let bytes = refcodec::encode(&c.pairs, c.version, c.ty, c.policy);
    // harness self-check: the encoder's output must satisfy the decoder
    match refcodec::decode(&bytes, c.pairs.len() + 1) {
        Ok(d) => {
            assert!(d.pairs == c.pairs && d.version == c.version && d.count == c.pairs.len() as u64, "harness bug: reference encoder/decoder disagree");
            if !rec.muted && d.nodes.values().any(|n| n.trans.len() > 32) {
                rec.class(&format!("v{}_node_over_32_transitions", c.version));
            }
        }
        Err(e) => panic!("harness bug: reference encoder output rejected by reference decoder: {}", e),
    }
    let container = CONTAINERS[c.container as usize % CONTAINERS.len()];
    let r = check_file(&bytes, c.version, c.ty, &c.pairs, container, "reference-encoded file");
    if !rec.muted {
        rec.class(&format!("version_{}", c.version));
        rec.class(&format!("container:{:?}", container));
        if bytes.len() < 36 {
            rec.class("file_shorter_than_36_bytes");
        }
        if c.version != 3 || container != Container::VecU8 {
            rec.nontrivial(H::new().u(c.version).u(c.container as u64 % 8).u(crate::engine::fnv(&bytes)).get());
            if rec.wants_sample() {
                rec.sample(json!({"version": c.version, "container": format!("{:?}", container), "file_bytes": bytes.len(), "policy": format!("{:?}", c.policy), "content": oracle::keys_show(&c.pairs)}));
            }
        }
    }
    r
}

/// Entry point for the fuzz target.
pub fn check_case(pairs: Pairs, version: u64, ty: u64, policy: Policy, container: u8) -> CheckResult {
    check(&Case { pairs, version, ty, policy, container }, &mut Rec::new(0))
}

// -- header sweep -----------------------------------------------------------------

#[derive(Clone, Debug)]
pub struct Sweep {
    pub bytes: Vec<u8>,
}

fn check_sweep(s: &Sweep, rec: &mut Rec) -> CheckResult {
    // the same documented outcome is required of every way of putting these bytes behind an Fst:
    // opening them directly, and swapping them in through map_data on Fst, Map and Set
    for opener in 0..4u8 {
        check_sweep_via(s, opener, rec)?;
    }
    Ok(())
}

fn check_sweep_via(s: &Sweep, opener: u8, rec: &mut Rec) -> CheckResult {
    rec.eval();
    let b = &s.bytes;
    let n = b.len();
    let how = ["Fst::new", "Fst::map_data", "Map::map_data", "Set::map_data"][opener as usize];
    static TINY: std::sync::OnceLock<Vec<u8>> = std::sync::OnceLock::new();
    let tiny = || TINY.get_or_init(|| fst::raw::Builder::memory().into_inner().expect("empty fst")).clone();
    let opened = crate::engine::catch(|| match opener {
        0 => fst::raw::Fst::new(&b[..]).map(|f| (f.len(), f.fst_type())),
        1 => fst::raw::Fst::new(tiny()).and_then(|f| f.map_data(|_| b.clone())).map(|f| (f.len(), f.fst_type())),
        2 => fst::Map::new(tiny()).and_then(|m| m.map_data(|_| b.clone())).map(|m| (m.len(), m.as_fst().fst_type())),
        _ => fst::Set::new(tiny()).and_then(|m| m.map_data(|_| b.clone())).map(|m| (m.len(), m.as_fst().fst_type())),
    });
    let r = match opened {
        Ok(r) => r,
        Err(p) => vfail!("panic", "{} panicked on a {}-byte input: {}; bytes {}", how, n, p, hex(b)),
    };
    let version = if n >= 8 { Some(u64::from_le_bytes([b[0], b[1], b[2], b[3], b[4], b[5], b[6], b[7]])) } else { None };
    let is_format = |r: &Result<(usize, u64), fst::Error>| matches!(r, Err(fst::Error::Fst(fst::raw::Error::Format { size })) if *size == n);
    let is_version = |r: &Result<(usize, u64), fst::Error>, v: u64| matches!(r, Err(fst::Error::Fst(fst::raw::Error::Version { expected: 3, got })) if *got == v);
    let show = |r: &Result<(usize, u64), fst::Error>| format!("{:?}", r.as_ref().map_err(|e| format!("{:?}", e)));
    match version {
        None => {
            vensure!(is_format(&r), "sweep-format", "{}: input of {} bytes (too short to hold a version) gave {} instead of Format{{size}}", how, n, show(&r));
            rec.class("sweep:shorter_than_8");
        }
        Some(v) if v == 0 || v > 3 => {
            if n >= 36 {
                vensure!(is_version(&r, v), "sweep-version", "{}: version {} with {} bytes gave {} instead of Version{{expected:3,got:{}}}", how, v, n, show(&r), v);
                rec.class("sweep:unsupported_version");
            } else {
                vensure!(is_version(&r, v) || is_format(&r), "sweep-version", "{}: unsupported version {} with only {} bytes gave {} (must be a Version or Format error)", how, v, n, show(&r));
                rec.class("sweep:unsupported_version_and_short");
            }
        }
        Some(v) => {
            let min = if v == 3 { 36 } else { 32 };
            if n < min {
                vensure!(is_format(&r), "sweep-format", "{}: version {} input of {} bytes (< {}) gave {} instead of Format", how, v, n, min, show(&r));
                rec.class("sweep:supported_version_too_short");
            } else {
                vensure!(r.is_ok() || is_format(&r), "sweep-other", "{}: version {} input of {} bytes gave {} (must be Ok or Format)", how, v, n, show(&r));
                rec.class(if r.is_ok() { "sweep:opens" } else { "sweep:format_error" });
            }
        }
    }
    Ok(())
}

// -- golden files -----------------------------------------------------------------

fn golden_models() -> Vec<(&'static str, Pairs)> {
    let months: Pairs = gen::sort_dedup(vec![(b"jan".to_vec(), 1), (b"feb".to_vec(), 2), (b"mar".to_vec(), 3), (b"may".to_vec(), 5), (b"jun".to_vec(), 6), (b"jul".to_vec(), 7)]);
    let fan33: Pairs = (0u8..33).map(|b| (vec![b'f', b * 7 + 1, b'x'], (b as u64) * 1000 + 1)).collect();
    let fan256: Pairs = (0u16..256).map(|b| (vec![b as u8, b'q'], (b as u64) << 20)).collect();
    let big: Pairs = gen::Recipe { kind: 1, n: 20_000, seed: 42, fanout: 6, keylen: 10, values: 2 }.pairs();
    let maxv: Pairs = vec![(vec![], u64::MAX), (b"a".to_vec(), u64::MAX - 1), (b"ab".to_vec(), u64::MAX), (b"b".to_vec(), 0)];
    let words: Pairs = gen::corpus("words-10000").map(|w| w.into_iter().take(2000).enumerate().map(|(i, k)| (k, i as u64)).collect()).unwrap_or_default();
    vec![
        ("empty", vec![]),
        ("only-empty-key", vec![(vec![], 0)]),
        ("empty-key-5", vec![(vec![], 5)]),
        ("one-key", vec![(b"a".to_vec(), 0)]),
        ("months", months),
        ("fanout33", gen::sort_dedup(fan33)),
        ("fanout256", gen::sort_dedup(fan256)),
        ("big", big),
        ("maxvalues", maxv),
        ("words2000", words),
    ]
}

/// `vf gen-golden`: write /verif/golden (run once, files are committed).
pub fn gen_golden() -> i32 {
    let dir = format!("{}/golden", VERIF_DIR);
    std::fs::create_dir_all(&dir).unwrap();
    for (name, pairs) in golden_models() {
        let v3 = gen::build_plain(&pairs, false).expect("golden build");
        std::fs::write(format!("{}/{}.v3.fst", dir, name), &v3).unwrap();
        for v in [1u64, 2] {
            let b = refcodec::encode(&pairs, v, 0, Policy { share: true, use_otn: true, wide: false });
            std::fs::write(format!("{}/{}.v{}.fst", dir, name, v), &b).unwrap();
        }
        std::fs::write(format!("{}/{}.json", dir, name), serde_json::to_string(&pairs_json(&pairs)).unwrap()).unwrap();
    }
    0
}

fn golden_files() -> Vec<(String, u64, Vec<u8>, Pairs)> {
    let dir = format!("{}/golden", VERIF_DIR);
    let mut out = vec![];
    for (name, _) in golden_models() {
        let model: Option<Pairs> = std::fs::read_to_string(format!("{}/{}.json", dir, name)).ok().and_then(|s| serde_json::from_str::<Value>(&s).ok()).and_then(|v| pairs_from_json(&v));
        let model = match model {
            Some(m) => m,
            None => continue,
        };
        for v in [1u64, 2, 3] {
            if let Ok(b) = std::fs::read(format!("{}/{}.v{}.fst", dir, name, v)) {
                out.push((format!("golden/{}.v{}.fst", name, v), v, b, model.clone()));
            }
        }
    }
    out
}

/// One large file written by the reference encoder in the given version.
fn check_big(r: &gen::Recipe, v: &u64, rec: &mut Rec) -> CheckResult {
    rec.eval();
    let pairs = r.pairs();
    let bytes = refcodec::encode(&pairs, *v, 0, Policy { share: true, use_otn: true, wide: false });
    let f = fst::raw::Fst::new(&bytes[..]).map_err(|e| Fail::new("open-failed", format!("version {} file of {} bytes: {:?}", v, bytes.len(), e)))?;
    let got = gen::collect_stream(f.stream());
    vensure!(got == pairs, "stream-mismatch", "version {} file of {} bytes: stream differs from the content", v, bytes.len());
    let step = (pairs.len() / 1500).max(1);
    let sample: Pairs = pairs.iter().step_by(step).cloned().collect();
    let (probes, _) = oracle::probes(&sample, false, &[]);
    oracle::check_lookups(&bytes, &pairs, &probes).map_err(|f| Fail::new(&f.sig, format!("version {} file of {} bytes: {}", v, bytes.len(), f.msg)))?;
    if pairs.windows(2).all(|w| w[0].1 < w[1].1) {
        oracle::check_get_key(&bytes, &pairs, 400).map_err(|f| Fail::new(&f.sig, format!("version {} file of {} bytes: {}", v, bytes.len(), f.msg)))?;
        rec.class(&format!("get_key_on_v{}_file", v));
    }
    for j in 0..60usize {
        let i = (crate::engine::mix(r.seed, j as u64) % pairs.len() as u64) as usize;
        let mut lo = pairs[i].0.clone();
        if j % 2 == 0 {
            lo.push(0);
        }
        let hi = pairs[(i + 1 + j % 30).min(pairs.len() - 1)].0.clone();
        let b: oracle::Bounds = vec![(if j % 3 == 0 { oracle::Kind::Gt } else { oracle::Kind::Ge }, lo), (oracle::Kind::Le, hi)];
        let want = oracle::model_range(&pairs, &b);
        let got = gen::collect_stream(oracle::apply_raw(f.range(), &b));
        vensure!(got == want, "range-mismatch", "version {} file of {} bytes: range{} differs from the model", v, bytes.len(), oracle::bounds_show(&b));
    }
    rec.class(&format!("large_v{}", v));
    if bytes.len() > 1 << 16 {
        rec.class("old_version_file_over_64KiB");
    }
    rec.nontrivial(H::new().u(r.n).u(r.seed).u(*v).get());
    Ok(())
}

pub fn run(e: &Engine) {
    crate::crcref::self_test();
    e.set_rule("cases are (map, format version 1/2/3, writer policy {sharing, one-trans-next, wide packs}, container) encoded by an independent reference encoder, plus committed golden files (v3 from the pinned builder, v1/v2 from the reference encoder) and a header sweep over version values x lengths 0..40 and a second one over supported versions x lengths 24..44 x root-address and key-count field values, each input also swapped in through Fst/Map/Set::map_data; oracle: opens through the container, len/fst_type, verify() = Ok for v3 and ChecksumMissing for v1/v2, query suite (stream, lookups, ranges, searches, set operations) equals the model; sweep: documented error per input, never a panic; non-trivial = version != 3 or a non-Vec container; distinct by (version, container, file digest)");
    e.assume("no historical crate release is available offline: files 'emitted by earlier builders' are represented by the reference encoder, whose v1/v2 modes differ from its cross-validated v3 mode only by the missing index (v1) and checksum (v1, v2)");
    let golden = golden_files();
    e.extra("golden_files", json!(golden.len()));
    e.run_list(
        "golden-files-x-containers",
        &golden,
        |g| json!({"golden": g.0}),
        |g, rec| {
            for c in CONTAINERS {
                rec.eval();
                check_file(&g.2, g.1, 0, &g.3, c, &g.0)?;
                rec.nontrivial(H::new().b(g.0.as_bytes()).u(c as u64).get());
                rec.class(&format!("golden_v{}", g.1));
            }
            Ok(())
        },
    );
    // smallest files of old versions, explicitly
    let tiny: Vec<Case> = [1u64, 2, 3]
        .into_iter()
        .flat_map(|v| {
            (0..8u8).flat_map(move |ci| {
                vec![
                    Case { pairs: vec![], version: v, ty: 0, policy: Policy { share: true, use_otn: true, wide: false }, container: ci },
                    Case { pairs: vec![(vec![], 0)], version: v, ty: 0, policy: Policy { share: true, use_otn: true, wide: false }, container: ci },
                    Case { pairs: vec![(b"a".to_vec(), 0)], version: v, ty: 7, policy: Policy { share: true, use_otn: true, wide: false }, container: ci },
                    Case { pairs: vec![(vec![], 3)], version: v, ty: 0, policy: Policy { share: true, use_otn: true, wide: false }, container: ci },
                ]
            })
        })
        .collect();
    e.run_list("smallest-files-per-version", &tiny, |c| c.to_json(), check);
    e.run_prop(
        "reference-encoded-maps",
        e.tier.pick(40_000, 1_000_000),
        || {
            (gen::small_pairs(30, 200), 1u64..=3, gen::type_strategy(), any::<bool>(), any::<bool>(), prop::bool::weighted(0.2), 0u8..8, prop::bool::weighted(0.25))
                .prop_map(|(mut pairs, version, ty, share, use_otn, wide, container, monotone)| {
                    if monotone {
                        // values strictly increasing with the keys: get_key becomes part of the query suite
                        let mut cur = pairs.first().map(|p| p.1 % 3).unwrap_or(0);
                        for p in pairs.iter_mut() {
                            p.1 = cur;
                            cur += 1 + (p.0.len() as u64 % 3) * 255;
                        }
                    }
                    Case { pairs, version, ty, policy: Policy { share, use_otn, wide }, container }
                })
        },
        |c| c.to_json(),
        check,
    );
    // larger files in the old versions (2- and 3-byte deltas, wide nodes on the seek path)
    let bigs: Vec<(gen::Recipe, u64)> = (0..e.tier.pick(6u64, 30)).map(|i| (gen::Recipe { kind: (1 + i % 2) as u8, n: 8_000 + i * 9_000, seed: crate::engine::mix(e.seed, 900 + i), fanout: [3u8, 5, 16, 3, 9, 16][(i % 6) as usize], keylen: 9 + (i % 5) as u8, values: (i % 3) as u8 }, 1 + (i % 3))).collect();
    // wide nodes (> 32 and > 64 transitions) with values increasing in key order, in every version
    let mut bigs = bigs;
    for (j, fanout) in [40u8, 100, 200].into_iter().enumerate() {
        for v in 1..=3u64 {
            bigs.push((gen::Recipe { kind: 1, n: 6_000, seed: crate::engine::mix(e.seed, 950 + j as u64), fanout, keylen: 6, values: 1 }, v));
        }
    }
    e.run_list("large-reference-encoded-files", &bigs, |(r, v)| json!({"recipe": r.to_json(), "version": v}), |(r, v), rec| check_big(r, v, rec));
    // header sweep: version x length x remainder
    // (values whose low byte or low 32 bits look like a supported version are unsupported too)
    let versions: [u64; 16] = [0, 1, 2, 3, 4, 255, 256, 257, 258, 259, 0x0301, (1 << 32) + 2, (1 << 56) + 3, 1 << 32, u64::MAX - 253, u64::MAX];
    let seed = e.seed;
    e.run_enum("header-sweep", 16 * 41 * 6, |idx, rec| {
        let v = versions[(idx % 16) as usize];
        let len = ((idx / 16) % 41) as usize;
        let variant = idx / (16 * 41);
        let mut b: Vec<u8> = (0..len)
            .map(|i| match variant {
                0 | 3 => 0u8,
                1 | 4 => 0xff,
                _ => crate::engine::mix(seed ^ idx, i as u64) as u8,
            })
            .collect();
        for (i, x) in v.to_le_bytes().iter().enumerate() {
            if i < len {
                b[i] = *x;
            }
        }
        if variant >= 3 && len >= 32 {
            // well-formed-looking footer: root address = the last body byte
            let end = if v >= 3 && len >= 36 { len - 4 } else { len };
            let root = (end - 16 - 1) as u64;
            b[end - 8..end].copy_from_slice(&root.to_le_bytes());
            b[end - 16..end - 8].copy_from_slice(&1u64.to_le_bytes());
        }
        let s = Sweep { bytes: b };
        crate::engine::guarded(|| check_sweep(&s, rec)).map_err(|f| (json!({"sweep": hex(&s.bytes)}), f))
    });
    // supported versions x lengths 24..44 x root-address field values (small ones, and those within
    // reach of the length) x key-count field, the footer laid out as version 3 and as versions 1/2
    let roots_small: Vec<u64> = (0..=24u64).collect();
    let nroots = roots_small.len() as u64 + 30 + 3;
    e.run_enum("header-sweep-root-values", 3 * 21 * nroots * 2 * 2, |idx, rec| {
        let v = 1 + idx % 3;
        let len = 24 + ((idx / 3) % 21) as usize;
        let ri = (idx / 63) % nroots;
        let layout3 = (idx / (63 * nroots)) % 2 == 0;
        let count = (idx / (63 * nroots * 2)) % 2;
        let root: u64 = if ri < 25 {
            ri
        } else if ri < 55 {
            (len as u64 + ri - 25).saturating_sub(26) // len-26 .. len+3
        } else {
            [1u64 << 32, u64::MAX - 1, u64::MAX][(ri - 55) as usize]
        };
        let mut b: Vec<u8> = (0..len).map(|i| crate::engine::mix(seed ^ 0x77, i as u64) as u8 | 1).collect();
        b[..8].copy_from_slice(&v.to_le_bytes());
        b[8..16].copy_from_slice(&0u64.to_le_bytes());
        let end = if layout3 { len - 4 } else { len };
        // (for short inputs the fields overlap the header's type word: still a byte string)
        if end >= 32 {
            b[end - 16..end - 8].copy_from_slice(&count.to_le_bytes());
        }
        if end >= 24 {
            b[end - 8..end].copy_from_slice(&root.to_le_bytes());
        }
        let s = Sweep { bytes: b };
        crate::engine::guarded(|| check_sweep(&s, rec)).map_err(|f| (json!({"sweep": hex(&s.bytes)}), f))
    });
    if e.tier == crate::engine::Tier::Thorough {
        crate::fuzzrun::campaign(e, "reader_versions", 80_000, 700);
    }
    for cls in ["version_1", "version_2", "version_3", "file_shorter_than_36_bytes", "v1_node_over_32_transitions", "v2_node_over_32_transitions", "container:Mmap", "container:CowBorrowed", "sweep:unsupported_version", "sweep:supported_version_too_short", "sweep:opens", "golden_v1", "golden_v3", "get_key_on_v1_file", "get_key_on_v2_file"] {
        e.require_class(cls, 1);
    }
}

pub fn replay(_sub: &str, case: &Value) -> Option<CheckResult> {
    let mut rec = Rec::new(0);
    Some(crate::engine::guarded(|| {
        if let Some(s) = case.get("sweep") {
            check_sweep(&Sweep { bytes: unhex(s.as_str().ok_or_else(bad)?).ok_or_else(bad)? }, &mut rec)
        } else if let Some(g) = case.get("golden") {
            let name = g.as_str().ok_or_else(bad)?;
            for (n, v, b, m) in golden_files() {
                if n == name {
                    for c in CONTAINERS {
                        check_file(&b, v, 0, &m, c, &n)?;
                    }
                }
            }
            Ok(())
        } else if let Some(r) = case.get("recipe") {
            let r = gen::Recipe::from_json(r).ok_or_else(bad)?;
            let v = case.get("version").and_then(|x| x.as_u64()).ok_or_else(bad)?;
            check_big(&r, &v, &mut rec)
        } else {
            check(&Case::from_json(case).ok_or_else(bad)?, &mut rec)
        }
    }))
}
