//! C04 Automaton search returns exactly the accepted in-range keys, with
//! states.

use std::cell::Cell;

use fst::raw::Fst;
use fst::{Automaton, IntoStreamer, Streamer};
use proptest::prelude::*;
use serde_json::{json, Value};

use crate::aut::{self, ClassMap, Dfa, Expr};
use crate::engine::{show, CheckResult, Engine, Fail, Rec, H};
use crate::gen::{self, FstInput, Pairs};
use crate::oracle::{self, Bounds};
use crate::props::c01::bad;

#[derive(Clone, Debug)]
pub enum AutSpec {
    Expr(Expr),
    Lev(String, u32),
    Regex { pattern: String, anchored: bool, sparse: bool, minimize: bool },
}

impl AutSpec {
    fn to_json(&self) -> Value {
        match self {
            AutSpec::Expr(e) => json!({"expr": e.to_json()}),
            AutSpec::Lev(q, d) => json!({"lev": [q, d]}),
            AutSpec::Regex { pattern, anchored, sparse, minimize } => {
                json!({"regex": pattern, "anchored": anchored, "sparse": sparse, "minimize": minimize})
            }
        }
    }
    fn from_json(v: &Value) -> Option<AutSpec> {
        if let Some(e) = v.get("expr") {
            return Some(AutSpec::Expr(Expr::from_json(e)?));
        }
        if let Some(l) = v.get("lev") {
            let a = l.as_array()?;
            return Some(AutSpec::Lev(a.get(0)?.as_str()?.to_string(), a.get(1)?.as_u64()? as u32));
        }
        Some(AutSpec::Regex {
            pattern: v.get("regex")?.as_str()?.to_string(),
            anchored: v.get("anchored")?.as_bool()?,
            sparse: v.get("sparse")?.as_bool()?,
            minimize: v.get("minimize")?.as_bool()?,
        })
    }
    fn show(&self) -> String {
        match self {
            AutSpec::Expr(e) => e.show(),
            AutSpec::Lev(q, d) => format!("Levenshtein({:?},{})", q, d),
            AutSpec::Regex { pattern, anchored, sparse, minimize } => {
                format!("regex({:?}, anchored={}, sparse={}, minimize={})", pattern, anchored, sparse, minimize)
            }
        }
    }
}

#[derive(Clone, Debug)]
pub struct Case {
    pub input: FstInput,
    pub bounds: Bounds,
    pub aut: AutSpec,
}

impl Case {
    fn to_json(&self) -> Value {
        json!({"input": self.input.to_json(), "bounds": oracle::bounds_json(&self.bounds), "automaton": self.aut.to_json()})
    }
    fn from_json(v: &Value) -> Option<Case> {
        Some(Case {
            input: FstInput::from_json(v.get("input")?)?,
            bounds: oracle::bounds_from_json(v.get("bounds")?)?,
            aut: AutSpec::from_json(v.get("automaton")?)?,
        })
    }
}

/// Wrapper that counts how often the search consults a hint that prunes.
struct Counting<'a, A> {
    inner: &'a A,
    pruned: Cell<u64>,
}

impl<'a, A: Automaton> Automaton for Counting<'a, A> {
    type State = A::State;
    fn start(&self) -> A::State {
        self.inner.start()
    }
    fn is_match(&self, s: &A::State) -> bool {
        self.inner.is_match(s)
    }
    fn can_match(&self, s: &A::State) -> bool {
        let c = self.inner.can_match(s);
        if !c {
            self.pruned.set(self.pruned.get() + 1);
        }
        c
    }
    fn will_always_match(&self, s: &A::State) -> bool {
        self.inner.will_always_match(s)
    }
    fn accept(&self, s: &A::State, b: u8) -> A::State {
        self.inner.accept(s, b)
    }
}

pub struct SearchStats {
    pub matched: usize,
    pub in_range: usize,
    pub pruned: u64,
}

/// The oracle: fold the automaton over every in-range model key through the
/// public trait, then compare with search / search_with_state on every
/// front end. `same` compares a reported state with the folded one.
pub fn check_search<A: Automaton>(
    bytes: &[u8],
    pairs: &Pairs,
    bounds: &Bounds,
    aut: &A,
    what: &str,
    same: &dyn Fn(&A::State, &A::State) -> bool,
) -> Result<SearchStats, Fail>
where
    A::State: Clone,
{
    let mut want: Pairs = vec![];
    let mut want_states: Vec<A::State> = vec![];
    let mut in_range = 0;
    for (k, v) in pairs {
        if !oracle::in_bounds(k, bounds) {
            continue;
        }
        in_range += 1;
        let mut st = aut.start();
        for &b in k {
            st = aut.accept(&st, b);
        }
        if aut.is_match(&st) {
            want.push((k.clone(), *v));
            want_states.push(st);
        }
    }
    let f = Fst::new(bytes).map_err(|e| Fail::new("open-failed", format!("{:?}", e)))?;
    let counting = Counting { inner: aut, pruned: Cell::new(0) };
    let got = gen::collect_stream(oracle::apply_raw(f.search(&counting), bounds));
    if got != want {
        return Err(Fail::new(
            "search-mismatch",
            format!(
                "Fst::search({}){} yields {} but the accepted in-range keys are {}; keys {}",
                what,
                oracle::bounds_show(bounds),
                oracle::keys_show(&got),
                oracle::keys_show(&want),
                oracle::keys_show(pairs)
            ),
        ));
    }
    let pruned = counting.pruned.get();
    // search_with_state
    let mut s = oracle::apply_raw_state(f.search_with_state(aut), bounds).into_stream();
    let mut i = 0;
    while let Some((k, v, st)) = s.next() {
        if i >= want.len() || k != &want[i].0[..] || v.value() != want[i].1 {
            return Err(Fail::new(
                "search-state-mismatch",
                format!(
                    "search_with_state({}){} item {} is {}={} but expected {}; keys {}",
                    what,
                    oracle::bounds_show(bounds),
                    i,
                    show(k),
                    v.value(),
                    want.get(i).map(|w| format!("{}={}", show(&w.0), w.1)).unwrap_or("end of stream".into()),
                    oracle::keys_show(pairs)
                ),
            ));
        }
        if !same(&st, &want_states[i]) {
            return Err(Fail::new(
                "search-state-wrong",
                format!(
                    "search_with_state({}){} reports for key {} a state different from the one reached by feeding the key to the automaton; keys {}",
                    what,
                    oracle::bounds_show(bounds),
                    show(k),
                    oracle::keys_show(pairs)
                ),
            ));
        }
        i += 1;
    }
    if i != want.len() {
        return Err(Fail::new(
            "search-state-mismatch",
            format!("search_with_state({}){} yields {} items, expected {}", what, oracle::bounds_show(bounds), i, want.len()),
        ));
    }
    // the wrappers
    let m = fst::Map::new(bytes).map_err(|e| Fail::new("open-failed", format!("{:?}", e)))?;
    let got = oracle::apply_map(m.search(aut), bounds).into_stream().into_byte_vec();
    if got != want {
        return Err(Fail::new("search-mismatch", format!("Map::search({}){} differs from the accepted in-range keys", what, oracle::bounds_show(bounds))));
    }
    let st = fst::Set::new(bytes).map_err(|e| Fail::new("open-failed", format!("{:?}", e)))?;
    let gotk = oracle::apply_set(st.search(aut), bounds).into_stream().into_bytes();
    if gotk != want.iter().map(|x| x.0.clone()).collect::<Vec<_>>() {
        return Err(Fail::new("search-mismatch", format!("Set::search({}){} differs from the accepted in-range keys", what, oracle::bounds_show(bounds))));
    }
    // ... and their search_with_state, which have bound setters of their own
    {
        let mut s = oracle::apply_map_state(m.search_with_state(aut), bounds).into_stream();
        let mut i = 0;
        while let Some((k, v, stt)) = s.next() {
            if i >= want.len() || k != &want[i].0[..] || v != want[i].1 || !same(&stt, &want_states[i]) {
                return Err(Fail::new(
                    "search-state-mismatch",
                    format!("Map::search_with_state({}){} item {} is {}={} (or carries a wrong state) but expected {}; keys {}", what, oracle::bounds_show(bounds), i, show(k), v,
                        want.get(i).map(|w| format!("{}={}", show(&w.0), w.1)).unwrap_or("end of stream".into()), oracle::keys_show(pairs)),
                ));
            }
            i += 1;
        }
        if i != want.len() {
            return Err(Fail::new("search-state-mismatch", format!("Map::search_with_state({}){} yields {} items, expected {}; keys {}", what, oracle::bounds_show(bounds), i, want.len(), oracle::keys_show(pairs))));
        }
        let mut s = oracle::apply_set_state(st.search_with_state(aut), bounds).into_stream();
        let mut i = 0;
        while let Some((k, stt)) = s.next() {
            if i >= want.len() || k != &want[i].0[..] || !same(&stt, &want_states[i]) {
                return Err(Fail::new(
                    "search-state-mismatch",
                    format!("Set::search_with_state({}){} item {} is {} (or carries a wrong state) but expected {}; keys {}", what, oracle::bounds_show(bounds), i, show(k),
                        want.get(i).map(|w| show(&w.0)).unwrap_or("end of stream".into()), oracle::keys_show(pairs)),
                ));
            }
            i += 1;
        }
        if i != want.len() {
            return Err(Fail::new("search-state-mismatch", format!("Set::search_with_state({}){} yields {} items, expected {}; keys {}", what, oracle::bounds_show(bounds), i, want.len(), oracle::keys_show(pairs))));
        }
    }
    Ok(SearchStats { matched: want.len(), in_range, pruned })
}

fn weaken_expr(e: &Expr) -> Expr {
    match e {
        Expr::Dfa(d) => Expr::Dfa(d.clone().with_weak_hints()),
        Expr::StartsWith(a) => Expr::StartsWith(Box::new(weaken_expr(a))),
        Expr::Compl(a) => Expr::Compl(Box::new(weaken_expr(a))),
        Expr::Union(a, b) => Expr::Union(Box::new(weaken_expr(a)), Box::new(weaken_expr(b))),
        Expr::Inter(a, b) => Expr::Inter(Box::new(weaken_expr(a)), Box::new(weaken_expr(b))),
        other => other.clone(),
    }
}

/// Behavioural state comparison for erased states: same verdicts now and
/// after a few fixed continuations.
fn same_behaviour(a: &aut::Erased, x: &aut::DynState, y: &aut::DynState) -> bool {
    if a.is_match(x) != a.is_match(y) || a.can_match(x) != a.can_match(y) {
        return false;
    }
    for cont in [&b"a"[..], b"b", b"ab", b"\xc3\xa9", b"ba\x00"] {
        let (mut sx, mut sy) = (x.clone(), y.clone());
        for &b in cont {
            sx = a.accept(&sx, b);
            sy = a.accept(&sy, b);
        }
        if a.is_match(&sx) != a.is_match(&sy) {
            return false;
        }
    }
    true
}

pub fn check(c: &Case, rec: &mut Rec) -> CheckResult {
    rec.eval();
    let built = match gen::build(&c.input) {
        Ok(b) => b,
        Err(e) => vfail!("build-error", "valid input rejected: {}", e),
    };
    let bytes = &built.bytes;
    let pairs = &c.input.pairs;
    let what = c.aut.show();
    let stats = match &c.aut {
        AutSpec::Expr(Expr::Dfa(d)) => {
            assert!(d.hints_sound(), "generator produced unsound hints");
            let s = check_search(bytes, pairs, &c.bounds, d, &what, &|a, b| a == b)?;
            // metamorphic: hint precision must not matter
            let weak = d.clone().with_weak_hints();
            let f = Fst::new(&bytes[..]).unwrap();
            let g1 = gen::collect_stream(oracle::apply_raw(f.search(d), &c.bounds));
            let g2 = gen::collect_stream(oracle::apply_raw(f.search(&weak), &c.bounds));
            vensure!(g1 == g2, "hint-dependence", "search result depends on hint precision for {}{}: with the given hints {} vs all hints weakened {}", what, oracle::bounds_show(&c.bounds), oracle::keys_show(&g1), oracle::keys_show(&g2));
            rec.class("aut:dfa");
            s
        }
        AutSpec::Expr(Expr::Str(p)) => {
            rec.class("aut:str");
            check_search(bytes, pairs, &c.bounds, &fst::automaton::Str::new(p), &what, &|a, b| a == b)?
        }
        AutSpec::Expr(Expr::Subseq(p)) => {
            rec.class("aut:subsequence");
            let s = check_search(bytes, pairs, &c.bounds, &fst::automaton::Subsequence::new(p), &what, &|a, b| a == b)?;
            // the fold oracle uses the automaton's own methods: also compare with the definition
            let e = Expr::Subseq(p.clone());
            let want: Pairs = pairs.iter().filter(|(k, _)| oracle::in_bounds(k, &c.bounds) && e.denotes(k)).cloned().collect();
            let f = Fst::new(&bytes[..]).unwrap();
            let got = gen::collect_stream(oracle::apply_raw(f.search(fst::automaton::Subsequence::new(p)), &c.bounds));
            vensure!(got == want, "search-denotation", "search({}){} yields {} but the keys containing the pattern as a subsequence are {}", what, oracle::bounds_show(&c.bounds), oracle::keys_show(&got), oracle::keys_show(&want));
            s
        }
        AutSpec::Expr(e) => {
            let a = e.build();
            let s = check_search(bytes, pairs, &c.bounds, &a, &what, &|x, y| same_behaviour(&a, x, y))?;
            let weak = weaken_expr(e).build();
            let f = Fst::new(&bytes[..]).unwrap();
            let g1 = gen::collect_stream(oracle::apply_raw(f.search(&a), &c.bounds));
            let g2 = gen::collect_stream(oracle::apply_raw(f.search(&weak), &c.bounds));
            vensure!(g1 == g2, "hint-dependence", "search result depends on hint precision for {}{}", what, oracle::bounds_show(&c.bounds));
            // and the denotational meaning of the expression
            let want: Pairs = pairs.iter().filter(|(k, _)| oracle::in_bounds(k, &c.bounds) && e.denotes(k)).cloned().collect();
            vensure!(g1 == want, "search-denotation", "search({}){} yields {} but the keys in the language are {}", what, oracle::bounds_show(&c.bounds), oracle::keys_show(&g1), oracle::keys_show(&want));
            rec.class(if e.depth() >= 2 { "aut:composition_depth>=2" } else { "aut:composition_depth1" });
            s
        }
        AutSpec::Lev(q, d) => {
            let lev = match fst::automaton::Levenshtein::new(q, *d) {
                Ok(l) => l,
                Err(e) => vfail!("lev-build", "Levenshtein::new({:?},{}) failed: {}", q, d, e),
            };
            rec.class("aut:levenshtein");
            check_search(bytes, pairs, &c.bounds, &lev, &what, &|a, b| a == b)?
        }
        AutSpec::Regex { pattern, anchored, sparse, minimize } => {
            // building the regex DFA is regex-automata's business, not the
            // crate under test: an error or panic there only skips the case
            let dense = crate::engine::catch(|| {
                regex_automata::dense::Builder::new()
                    .anchored(*anchored)
                    .minimize(*minimize)
                    .byte_classes(true)
                    .premultiply(true)
                    .build(pattern)
            });
            let dense = match dense {
                Ok(Ok(d)) => d,
                _ => {
                    rec.class("regex_build_failed(skipped)");
                    return Ok(());
                }
            };
            if *sparse {
                let sp = match crate::engine::catch(|| dense.to_sparse()) {
                    Ok(Ok(s)) => s,
                    _ => {
                        rec.class("regex_build_failed(skipped)");
                        return Ok(());
                    }
                };
                rec.class("aut:regex_sparse");
                check_search(bytes, pairs, &c.bounds, &sp, &what, &|a, b| a == b)?
            } else {
                rec.class("aut:regex_dense");
                check_search(bytes, pairs, &c.bounds, &dense, &what, &|a, b| a == b)?
            }
        }
    };
    if !rec.muted {
        let partial = stats.matched > 0 && stats.matched < stats.in_range;
        if partial {
            rec.class("accepts_some_not_all");
        }
        if stats.pruned > 0 {
            rec.class("pruning_hint_fired");
        }
        if !c.bounds.is_empty() {
            rec.class("with_bounds");
        }
        if (partial || stats.pruned > 0) && !c.bounds.is_empty() {
            let mut h = H::new().u(c.input.hash()).b(what.as_bytes());
            for (k, key) in &c.bounds {
                h = h.u(*k as u64).b(key);
            }
            rec.nontrivial(h.get());
            if rec.wants_sample() {
                rec.sample(json!({"fst": c.input.sample(), "bounds": oracle::bounds_show(&c.bounds), "automaton": what,
                    "in_range": stats.in_range, "matched": stats.matched, "prunings": stats.pruned}));
            }
        }
    }
    Ok(())
}

fn regex_strategy() -> impl Strategy<Value = String> {
    let atom = prop_oneof![
        4 => prop_oneof![Just("a"), Just("b"), Just("c"), Just("0"), Just("é")].prop_map(|s| s.to_string()),
        1 => Just("[ab]".to_string()),
        1 => Just("[^a]".to_string()),
        1 => Just(".".to_string()),
        1 => Just("(?-u:[\\x00-\\xff])".to_string()),
        1 => Just("(?-u:\\xff)".to_string()),
        1 => Just("[a-c]".to_string()),
    ];
    let piece = (atom, prop_oneof![3 => Just(""), 1 => Just("*"), 1 => Just("?"), 1 => Just("+")]).prop_map(|(a, q)| format!("{}{}", a, q));
    let seq = proptest::collection::vec(piece, 0..4).prop_map(|v| v.concat());
    proptest::collection::vec(seq, 1..3).prop_map(|alts| if alts.len() == 1 { alts[0].clone() } else { format!("({})", alts.join("|")) })
}

fn autspec_strategy() -> impl Strategy<Value = AutSpec> {
    prop_oneof![
        5 => aut::dfa_strategy(8).prop_map(|d| AutSpec::Expr(Expr::Dfa(d))),
        4 => aut::expr_strategy(3, 4).prop_map(AutSpec::Expr),
        1 => ("[abc]{0,4}", 0u32..3).prop_map(|(q, d)| AutSpec::Lev(q, d)),
        2 => (regex_strategy(), any::<bool>(), any::<bool>(), any::<bool>())
            .prop_map(|(pattern, anchored, sparse, minimize)| AutSpec::Regex { pattern, anchored, sparse, minimize }),
    ]
}

/// Key sets aimed at the automata's alphabets (a, b, c, é, high bytes).
fn aut_pairs() -> BoxedStrategy<Pairs> {
    let byte = prop_oneof![4 => Just(b'a'), 4 => Just(b'b'), 2 => Just(b'c'), 1 => Just(0xc3u8), 1 => Just(0xa9u8), 1 => Just(0u8), 1 => Just(0xffu8), 1 => any::<u8>()];
    prop_oneof![
        3 => (proptest::collection::vec((proptest::collection::vec(byte, 0..=5), gen::value_strategy()), 0..40)).prop_map(gen::sort_dedup),
        1 => gen::small_pairs(30, 40),
        1 => gen::with_long_keys(),
    ]
    .boxed()
}

pub fn run(e: &Engine) {
    e.set_rule("cases are (built FST, bound history, automaton); automata: every DFA with <= 2 states over 2 byte classes x every sound can_match assignment (enumerated), sampled 3-state DFAs, random DFAs <= 8 states with randomly weakened hints, Str/Subsequence/AlwaysMatch and compositions to depth 3 through the crate's combinators, Levenshtein, regex-automata dense/sparse DFAs; oracle: fold accept/is_match over each in-range model key; non-trivial = at least one bound set and (the automaton accepts some but not all in-range keys or a can_match=false hint fired during the search); distinct by (FST hash, bounds, automaton)");
    e.assume("generated automata obey the Automaton contract by construction (hints checked sound against exact reachability) and none overrides accept_eof");

    // (a) every DFA with <= 2 states over 2 classes x every sound can_match assignment
    let mut small: Vec<Dfa> = vec![];
    for cm in ClassMap::TWO {
        for n in 1..=2usize {
            for idx in 0..aut::dfa_count(n, 2) {
                small.extend(aut::sound_can_variants(&aut::dfa_by_index(n, cm, idx)));
            }
        }
    }
    e.extra("enumerated_small_dfas_with_hint_variants", json!(small.len()));
    let bu = gen::universe(b"`ab", 3);
    let mut bound_sets: Vec<Bounds> = vec![vec![]];
    for k in &bu {
        for kind in oracle::Kind::all() {
            bound_sets.push(vec![(kind, k.clone())]);
        }
    }
    for (i, lo) in bu.iter().enumerate() {
        for hi in bu.iter().skip(i % 3).step_by(3) {
            bound_sets.push(vec![(oracle::Kind::Ge, lo.clone()), (oracle::Kind::Lt, hi.clone())]);
            bound_sets.push(vec![(oracle::Kind::Gt, lo.clone()), (oracle::Kind::Le, hi.clone())]);
        }
    }
    let nsub: u64 = e.tier.pick(64, 4096);
    let offset = crate::engine::mix(e.seed, 4) & 0x7fff;
    let small_ref = &small;
    let bound_ref = &bound_sets;
    e.run_enum("small-dfas-x-sound-hints-x-bounds", nsub * small.len() as u64, |idx, rec| {
        let u3 = gen::u3();
        let si = idx / small_ref.len() as u64;
        let mask = (si.wrapping_mul(12347) + offset) & 0x7fff;
        let d = &small_ref[(idx % small_ref.len() as u64) as usize];
        let keys = gen::subset(&u3, mask);
        let input = FstInput::new(gen::Front::MapBuilder, None, gen::enum_values(1, &keys));
        let built = match gen::build(&input) {
            Ok(b) => b,
            Err(m) => return Err((input.to_json(), Fail::new("build-error", m))),
        };
        let what = d.show();
        for b in bound_ref {
            rec.eval();
            match crate::engine::guarded(|| check_search(&built.bytes, &input.pairs, b, d, &what, &|x, y| x == y).map(|_| ())) {
                Ok(()) => {}
                Err(f) => {
                    let c = Case { input: input.clone(), bounds: b.clone(), aut: AutSpec::Expr(Expr::Dfa(d.clone())) };
                    return Err((c.to_json(), f));
                }
            }
            if !b.is_empty() {
                rec.nontrivial_by_construction();
            }
        }
        Ok(())
    });
    // 3-state DFAs: all transition tables over 2 classes, sampled acceptance/hints
    let n3 = aut::dfa_count(3, 2);
    let total3: u64 = e.tier.pick(3000, n3);
    let off3 = crate::engine::mix(e.seed, 5) % n3;
    e.run_enum("three-state-dfas", total3, |idx, rec| {
        let di = (idx.wrapping_mul(7919) + off3) % n3; // 7919 is coprime with 5832
        let base = aut::dfa_by_index(3, ClassMap::TWO[(idx % 3) as usize], di);
        let variants = aut::sound_can_variants(&base);
        let u3 = gen::u3();
        let mask = crate::engine::mix(idx, 99) & 0x7fff;
        let keys = gen::subset(&u3, mask);
        let input = FstInput::new(gen::Front::SetBuilder, None, gen::enum_values(0, &keys));
        let built = match gen::build(&input) {
            Ok(b) => b,
            Err(m) => return Err((input.to_json(), Fail::new("build-error", m))),
        };
        for d in &variants {
            let what = d.show();
            for b in bound_ref.iter().step_by(7) {
                rec.eval();
                if let Err(f) = crate::engine::guarded(|| check_search(&built.bytes, &input.pairs, b, d, &what, &|x, y| x == y).map(|_| ())) {
                    let c = Case { input: input.clone(), bounds: b.clone(), aut: AutSpec::Expr(Expr::Dfa(d.clone())) };
                    return Err((c.to_json(), f));
                }
            }
        }
        Ok(())
    });
    e.run_prop(
        "random-automata-x-fsts-x-bounds",
        e.tier.pick(150_000, 3_000_000),
        || {
            (aut_pairs(), (0usize..gen::MAP_FRONTS.len()), gen::geom_strategy(), oracle::bounds_sel_strategy(3), autspec_strategy()).prop_map(
                |(pairs, fi, geom, sels, aut)| {
                    let input = FstInput::new(gen::MAP_FRONTS[fi], geom, pairs);
                    let bounds = oracle::resolve_bounds(&sels, &input.pairs);
                    Case { input, bounds, aut }
                },
            )
        },
        |c| c.to_json(),
        check,
    );
    for cls in ["aut:dfa", "aut:str", "aut:subsequence", "aut:composition_depth>=2", "aut:levenshtein", "aut:regex_dense", "aut:regex_sparse", "pruning_hint_fired", "accepts_some_not_all"] {
        e.require_class(cls, 1);
    }
}

pub fn replay(_sub: &str, case: &Value) -> Option<CheckResult> {
    let mut rec = Rec::new(0);
    Some(crate::engine::guarded(|| check(&Case::from_json(case).ok_or_else(bad)?, &mut rec)))
}
