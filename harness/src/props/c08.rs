//! C08 Checksums certify the bytes: built FSTs verify, corrupted ones never
//! do.

use proptest::prelude::*;
use serde_json::{json, Value};

use crate::crcref;
use crate::engine::{hex, unhex, CheckResult, Engine, Fail, Rec, H};
use crate::gen::{self, FstInput};
use crate::props::c01::bad;

// -- (1) every built FST verifies and carries the reference checksum ---------

/// Special values written over the 4-byte checksum field of a built FST:
/// none of them is the masked CRC-32C of the body, so verify() must fail.
fn check_checksum_field(orig: &[u8], rec: &mut Rec, what: &dyn Fn() -> String) -> CheckResult {
    let n = orig.len();
    let body = &orig[..n - 4];
    let good = crcref::masked(body);
    let crc = crcref::crc32c(body);
    let stored = u32::from_le_bytes([orig[n - 4], orig[n - 3], orig[n - 2], orig[n - 1]]);
    let candidates = [
        0u32,
        u32::MAX,
        1,
        crc,                                  // unmasked
        !crc,
        crc.rotate_right(15),                 // rotated but offset not added
        crc.wrapping_add(0xA282_EAD8),        // offset added but not rotated
        stored.swap_bytes(),
        stored.wrapping_add(1),
        stored ^ 0x8000_0000,
        crcref::masked(orig),                 // checksum of the whole file
        crcref::masked(&orig[..n - 5]),       // one byte short
        crcref::masked(&orig[16..n - 4]),     // body without the header
        // simple transforms of the correct value (a verifier that normalises too much)
        !good,
        good.swap_bytes(),
        good.rotate_left(15),
        good.rotate_right(15),
        good.rotate_left(17),
        good.rotate_left(8),
        good.rotate_left(16),
        good.wrapping_sub(0xA282_EAD8),
        good ^ 0xA282_EAD8,
        good.wrapping_add(0xA282_EAD8),
        good.reverse_bits(),
    ];
    for c in candidates {
        if c == good {
            continue;
        }
        let mut m = orig.to_vec();
        m[n - 4..].copy_from_slice(&c.to_le_bytes());
        judge(orig, &m, rec, &|| format!("checksum field replaced by {:#010x} (correct {:#010x}); {}", c, good, what()))?;
        rec.class("checksum_field_special_value");
    }
    Ok(())
}

fn check_built(input: &FstInput, rec: &mut Rec) -> CheckResult {
    rec.eval();
    let built = gen::build(input).map_err(|e| Fail::new("build-error", e))?;
    let b = &built.bytes;
    let n = b.len();
    vensure!(n >= 36, "too-short", "built FST has {} bytes", n);
    let trailer = u32::from_le_bytes([b[n - 4], b[n - 3], b[n - 2], b[n - 1]]);
    let want = crcref::masked(&b[..n - 4]);
    vensure!(trailer == want, "trailer", "trailing 4 bytes are {:#010x} but the masked CRC-32C of the preceding {} bytes is {:#010x}; keys {}", trailer, n - 4, want, crate::oracle::keys_show(&input.pairs));
    let f = fst::raw::Fst::new(&b[..]).map_err(|e| Fail::new("open-failed", format!("{:?}", e)))?;
    if let Err(e) = f.verify() {
        vfail!("verify-built", "verify() fails on a freshly built FST: {:?}; keys {}", e, crate::oracle::keys_show(&input.pairs));
    }
    rec.class("built_fst_verified");
    // "independent of how the data was chunked while being written": the
    // same sequence streamed to sinks that accept a few bytes per call and
    // interrupt now and then must carry the same (reference) checksum
    let h = input.hash();
    let cap = 1 + (h % 9) as usize;
    let script: Vec<crate::sinks::Act> = (0..(h >> 8) % 12)
        .map(|i| match (h >> (12 + 2 * i)) & 3 {
            0 => crate::sinks::Act::Interrupted,
            1 => crate::sinks::Act::AllButOne,
            _ => crate::sinks::Act::Accept(usize::MAX),
        })
        .collect();
    let sink = crate::sinks::ScriptSink::new(script, cap);
    let mut bld = fst::raw::Builder::new_type(sink, input.ty).map_err(|e| Fail::new("io-error", format!("{:?}", e)))?;
    let set = input.front.is_set();
    for (k, v) in &input.pairs {
        if set { bld.add(k) } else { bld.insert(k, *v) }.map_err(|e| Fail::new("io-error", format!("{:?}", e)))?;
    }
    let sb = bld.into_inner().map_err(|e| Fail::new("io-error", format!("{:?}", e)))?.data;
    let sn = sb.len();
    vensure!(sn >= 36, "too-short", "FST streamed to a short-write sink has {} bytes", sn);
    let strailer = u32::from_le_bytes([sb[sn - 4], sb[sn - 3], sb[sn - 2], sb[sn - 1]]);
    let swant = crcref::masked(&sb[..sn - 4]);
    vensure!(strailer == swant, "trailer-chunked", "FST streamed to a sink accepting <= {} bytes per call: trailing 4 bytes are {:#010x} but the masked CRC-32C of the preceding bytes is {:#010x}; keys {}", cap, strailer, swant, crate::oracle::keys_show(&input.pairs));
    let sf = fst::raw::Fst::new(&sb[..]).map_err(|e| Fail::new("open-failed", format!("{:?}", e)))?;
    if let Err(e) = sf.verify() {
        vfail!("verify-built-chunked", "verify() fails on an FST streamed to a sink accepting <= {} bytes per call: {:?}; keys {}", cap, e, crate::oracle::keys_show(&input.pairs));
    }
    rec.class("built_through_short_write_sink_verified");
    check_checksum_field(b, rec, &|| format!("keys {}", crate::oracle::keys_show(&input.pairs)))
}

// -- (2) CRC differential ------------------------------------------------------

#[derive(Clone, Debug)]
pub struct CrcCase {
    pub data: Vec<u8>,
    pub cuts: Vec<usize>, // sorted cut points in 0..=len
}

impl CrcCase {
    fn to_json(&self) -> Value {
        json!({"data": hex(&self.data), "cuts": self.cuts})
    }
    fn from_json(v: &Value) -> Option<CrcCase> {
        Some(CrcCase {
            data: unhex(v.get("data")?.as_str()?)?,
            cuts: v.get("cuts")?.as_array()?.iter().map(|x| x.as_u64().map(|y| y as usize)).collect::<Option<Vec<_>>>()?,
        })
    }
}

fn check_crc(c: &CrcCase, rec: &mut Rec) -> CheckResult {
    rec.eval();
    let want = crcref::masked(&c.data);
    let mut chunks: Vec<&[u8]> = vec![];
    let mut prev = 0;
    let mut cuts = c.cuts.clone();
    cuts.retain(|&x| x <= c.data.len());
    cuts.sort();
    for &cut in &cuts {
        chunks.push(&c.data[prev.min(cut)..cut]);
        prev = prev.max(cut);
    }
    chunks.push(&c.data[prev..]);
    let got = fst::raw::verif::masked_crc32c(&chunks);
    vensure!(got == want, "crc-differential", "masked CRC-32C of {} bytes in {} chunks (cuts {:?}) is {:#010x}, the bitwise reference gives {:#010x}", c.data.len(), chunks.len(), cuts, got, want);
    // hook-free path: a version-3 frame around the data exposes the
    // implementation's checksum of the body through ChecksumMismatch{got}
    let mut frame = Vec::with_capacity(c.data.len() + 40);
    frame.extend_from_slice(&3u64.to_le_bytes());
    frame.extend_from_slice(&0u64.to_le_bytes());
    frame.extend_from_slice(&c.data);
    frame.extend_from_slice(&0u64.to_le_bytes());
    frame.extend_from_slice(&1u64.to_le_bytes()); // root address 1: never "empty"
    let body_crc = crcref::masked(&frame);
    let wrong = body_crc ^ 0x5555_5555;
    frame.extend_from_slice(&wrong.to_le_bytes());
    if let Ok(f) = fst::raw::Fst::new(&frame[..]) {
        match f.verify() {
            Err(fst::Error::Fst(fst::raw::Error::ChecksumMismatch { expected, got })) => {
                vensure!(expected == wrong && got == body_crc, "crc-differential-public", "verify() computed {:#010x} over a {}-byte body (stored {:#010x}); the bitwise reference gives {:#010x}", got, frame.len() - 4, expected, body_crc);
                rec.class("crc_via_public_api");
            }
            Ok(()) => vfail!("certified-corrupt", "verify() accepted a frame whose stored checksum {:#010x} differs from the reference {:#010x}", wrong, body_crc),
            Err(e) => vfail!("verify-other-error", "verify() returned {:?} on a version-3 frame", e),
        }
    } else {
        rec.class("frame_refused_by_stricter_open(skipped)");
    }
    if !rec.muted && c.data.len() >= 16 && cuts.iter().any(|&x| x % 16 != 0 && x > 0 && x < c.data.len()) {
        rec.nontrivial(H::new().b(&c.data).u(cuts.iter().fold(0u64, |a, &x| crate::engine::mix(a, x as u64))).get());
        rec.class("crc_cut_inside_16_byte_block");
        if rec.wants_sample() {
            rec.sample(json!({"crc_len": c.data.len(), "cuts": cuts}));
        }
    }
    Ok(())
}

// -- (3) corruption -------------------------------------------------------------

#[derive(Clone, Debug)]
pub struct MutCase {
    pub input: FstInput,
    pub pos: usize,     // resolved against the file length
    pub bytes: Vec<u8>, // replacement bytes (burst of 1..4), xor-masks (non-zero first)
}

impl MutCase {
    fn to_json(&self) -> Value {
        json!({"input": self.input.to_json(), "pos": self.pos, "xor": hex(&self.bytes)})
    }
    fn from_json(v: &Value) -> Option<MutCase> {
        Some(MutCase { input: FstInput::from_json(v.get("input")?)?, pos: v.get("pos")?.as_u64()? as usize, bytes: unhex(v.get("xor")?.as_str()?)? })
    }
}

/// Outcome classes for one mutated copy; Err = corruption certified valid.
fn judge(orig: &[u8], mutated: &[u8], rec: &mut Rec, what: &dyn Fn() -> String) -> CheckResult {
    rec.eval();
    if mutated == orig {
        return Ok(());
    }
    match fst::raw::Fst::new(mutated) {
        Err(_) => {
            rec.class("mutation_refused_at_open");
            rec.class("mutation_detected");
            Ok(())
        }
        Ok(f) => match f.verify() {
            Err(fst::Error::Fst(fst::raw::Error::ChecksumMismatch { .. })) => {
                rec.class("mutation_caught_by_verify");
                rec.class("mutation_detected");
                Ok(())
            }
            Err(fst::Error::Fst(fst::raw::Error::ChecksumMissing)) => {
                rec.class("mutation_flips_version(checksum_missing)");
                Ok(())
            }
            Err(e) => vfail!("verify-other-error", "verify() returned {:?} on a mutated copy ({})", e, what()),
            Ok(()) => {
                // general oracle: Ok is only legitimate if the stored
                // checksum really is the checksum of the mutated body
                let n = mutated.len();
                let stored = u32::from_le_bytes([mutated[n - 4], mutated[n - 3], mutated[n - 2], mutated[n - 1]]);
                if crcref::masked(&mutated[..n - 4]) == stored {
                    rec.class("genuine_crc_collision(allowed)");
                    Ok(())
                } else {
                    vfail!("certified-corrupt", "verify() returned Ok for a corrupted copy ({})", what())
                }
            }
        },
    }
}

fn check_mut(c: &MutCase, rec: &mut Rec) -> CheckResult {
    let built = gen::build(&c.input).map_err(|e| Fail::new("build-error", e))?;
    let orig = &built.bytes;
    let pos = c.pos % orig.len();
    let mut m = orig.clone();
    for (i, x) in c.bytes.iter().enumerate() {
        if pos + i < m.len() {
            m[pos + i] ^= x;
        }
    }
    if !rec.muted && m != *orig {
        rec.nontrivial(H::new().u(c.input.hash()).u(pos as u64).b(&c.bytes).get());
        if rec.wants_sample() {
            rec.sample(json!({"fst": c.input.sample(), "file_len": orig.len(), "pos": pos, "xor": hex(&c.bytes)}));
        }
    }
    judge(orig, &m, rec, &|| format!("{} byte(s) at offset {} of {} xor {}; keys {}", c.bytes.len(), pos, orig.len(), hex(&c.bytes), crate::oracle::keys_show(&c.input.pairs)))
}

/// Entry point for the fuzz target: apply a burst at `pos` (mod file length).
pub fn check_mut_case(input: &FstInput, pos: usize, bytes: &[u8]) -> CheckResult {
    check_mut(&MutCase { input: input.clone(), pos, bytes: bytes.to_vec() }, &mut Rec::new(0))
}

/// Long CRC input at a given slice alignment (data derived from `seed`).
fn check_crc_long(l: &usize, off: &usize, seed: u64, rec: &mut Rec) -> CheckResult {
    rec.eval();
    let buf: Vec<u8> = (0..(l + off)).map(|i| crate::engine::mix(seed, i as u64 / 7) as u8).collect();
    let data = &buf[*off..];
    let want = crcref::masked(data);
    let got = fst::raw::verif::masked_crc32c(&[data]);
    vensure!(got == want, "crc-differential", "masked CRC-32C of {} bytes (slice offset {}) is {:#010x}, the bitwise reference gives {:#010x}", l, off, got, want);
    let mid = l / 2 + 1;
    let got2 = fst::raw::verif::masked_crc32c(&[&data[..mid], &data[mid..]]);
    vensure!(got2 == want, "crc-differential", "masked CRC-32C of {} bytes in two chunks differs from the reference", l);
    rec.nontrivial(H::new().u(*l as u64).u(*off as u64).get());
    rec.class("crc_long_input");
    Ok(())
}

/// Sampled single-bit corruption of one large built file.
fn check_big_corruption(r: &gen::Recipe, extra_positions: u64, rec: &mut Rec) -> CheckResult {
    let pairs = r.pairs();
    let orig = gen::build_plain(&pairs, false).map_err(|m| Fail::new("build-error", m))?;
    drop(pairs);
    let n = orig.len();
    rec.class(if n > 1 << 24 { "corrupted_file_over_16MiB" } else if n > 1 << 16 { "corrupted_file_over_64KiB" } else { "corrupted_file_small" });
    let f = fst::raw::Fst::new(&orig[..]).map_err(|e| Fail::new("open-failed", format!("{:?}", e)))?;
    if let Err(e) = f.verify() {
        vfail!("verify-built", "verify() fails on a freshly built {}-byte FST: {:?}", n, e);
    }
    let mut m = orig.clone();
    let mut positions: Vec<usize> = vec![16, 17, 255, 256, 4095, 4096, 65_535, 65_536, 65_537, n - 5, n - 6, n - 21, n - 22, n - 37, n / 2, n / 3];
    positions.extend([(1usize << 24) - 1, 1 << 24, (1 << 24) + 1].into_iter().filter(|&p| p < n - 4));
    for j in 0..extra_positions {
        positions.push((crate::engine::mix(r.seed, j) % (n as u64 - 4)) as usize);
    }
    for pos in positions {
        if pos >= n {
            continue;
        }
        let x = 1u8 << (pos % 8);
        m[pos] ^= x;
        let res = judge(&orig, &m, rec, &|| format!("{}-byte file, offset {} xor {:#04x}", n, pos, x));
        m[pos] ^= x;
        res?;
        rec.nontrivial(H::new().u(r.seed).u(pos as u64).get());
    }
    Ok(())
}

pub fn run(e: &Engine) {
    crcref::self_test();
    e.set_rule("three families: (1) every build from C01's space must verify() and carry trailer == mask(crc32c(prefix)) per an independent bitwise CRC; (2) CRC differential: byte strings of every length 0..700 (4096 thorough) x 4 contents x chunkings with cut points around multiples of 16, through the hook masked_crc32c(chunks) and hook-free through a version-3 frame whose ChecksumMismatch{got} exposes the implementation's checksum; (3) corruption: every byte position x all 255 replacement values of small FSTs, sampled positions and 1..4-byte bursts of larger ones; a violation is a mutated copy that opens and verifies although its stored checksum is not the reference checksum of its body; non-trivial = mutation of a distinct (FST, position, xor) or CRC case of length >= 16 with a cut inside a 16-byte block");
    e.assume("crcref (bitwise, checked against RFC 3720 vectors) is the definition of CRC-32C; a header flip 3->1/2 yields ChecksumMissing, an error, not a certification");
    e.run_prop("built-fsts-verify-and-trailer", e.tier.pick(40_000, 600_000), || gen::fst_input(40, 300), |c| c.to_json(), check_built);

    // (2) every length, 4 contents, several chunkings
    let maxlen: u64 = e.tier.pick(700, 4096);
    let seed = e.seed;
    e.run_enum("crc-every-length-x-contents-x-chunkings", (maxlen + 1) * 4 * 6, |idx, rec| {
        let len = (idx % (maxlen + 1)) as usize;
        let content = (idx / (maxlen + 1)) % 4;
        let chunking = idx / ((maxlen + 1) * 4);
        let data: Vec<u8> = (0..len)
            .map(|i| match content {
                0 => 0u8,
                1 => 0xff,
                2 => i as u8,
                _ => crate::engine::mix(seed ^ len as u64, i as u64) as u8,
            })
            .collect();
        let mut cuts: Vec<usize> = vec![];
        match chunking {
            0 => {}
            1 => cuts = (1..len).step_by(1).collect(),          // byte by byte
            2 => cuts = (16..len).step_by(16).collect(),        // exactly on blocks
            3 => cuts = (15..len).step_by(16).collect(),        // one before each block end
            4 => cuts = (17..len).step_by(16).collect(),        // one after
            _ => {
                let mut x = 0usize;
                let mut k = 0u64;
                while x < len {
                    x += 1 + (crate::engine::mix(seed ^ idx, k) % 37) as usize;
                    k += 1;
                    if x < len {
                        cuts.push(x);
                    }
                }
            }
        }
        let c = CrcCase { data, cuts };
        crate::engine::guarded(|| check_crc(&c, rec)).map_err(|f| (c.to_json(), f))
    });
    e.run_prop(
        "crc-random-data-and-cuts",
        e.tier.pick(10_000, 300_000),
        || {
            (proptest::collection::vec(any::<u8>(), 0..300), proptest::collection::vec((0usize..20, -1i32..=1), 0..8)).prop_map(|(data, raw)| {
                let mut cuts: Vec<usize> = raw.into_iter().map(|(b, d)| ((b * 16) as i64 + d as i64).max(0) as usize).filter(|&x| x <= data.len()).collect();
                cuts.sort();
                CrcCase { data, cuts }
            })
        },
        |c| c.to_json(),
        check_crc,
    );

    // long inputs (fast path over thousands of 16-byte blocks) at every slice alignment
    let longs: Vec<(usize, usize)> = [4095usize, 4096, 4097, 65_535, 65_536, 65_537, (1 << 20) + 3].into_iter().flat_map(|l| (0..16usize).step_by(5).map(move |off| (l, off))).collect();
    e.run_list("crc-long-inputs-x-alignments", &longs, |(l, off)| json!({"len": l, "offset": off, "data_seed": seed.to_string()}), |(l, off), rec| check_crc_long(l, off, seed, rec));
    // corruption of large files: sampled positions incl. beyond 2^16 / 2^24 and the last blocks
    let bigfiles: Vec<gen::Recipe> = vec![
        gen::Recipe { kind: 1, n: 40_000, seed: e.seed ^ 0x81, fanout: 5, keylen: 12, values: 2 },
        gen::Recipe { kind: 2, n: 120_000, seed: e.seed ^ 0x82, fanout: 4, keylen: 14, values: 1 },
        gen::Recipe { kind: 1, n: e.tier.pick(2_300_000, 3_000_000), seed: e.seed ^ 0x16, fanout: 16, keylen: 12, values: 2 },
    ];
    let extra_positions = e.tier.pick(40u64, 400);
    e.run_list("large-files-sampled-corruption", &bigfiles, |r| r.to_json(), |r, rec| check_big_corruption(r, extra_positions, rec));
    // (3) exhaustive single-byte corruption of small FSTs
    let smalls: Vec<FstInput> = vec![
        FstInput::new(gen::Front::RawInsert, None, vec![]),
        FstInput::new(gen::Front::RawInsert, None, vec![(vec![], 0)]),
        FstInput::new(gen::Front::RawInsert, None, vec![(vec![], 5), (b"a".to_vec(), 7)]),
        FstInput::new(gen::Front::MapBuilder, None, vec![(b"abc".to_vec(), 300), (b"abd".to_vec(), 70000)]),
        FstInput::new(gen::Front::MapBuilder, None, gen::enum_values(3, &gen::u2())),
        FstInput::new(gen::Front::SetBuilder, None, gen::enum_values(0, &gen::u3())),
        FstInput::new(gen::Front::MapBuilder, None, (0u8..40).map(|b| (vec![b'k', b * 3], b as u64 * 1000)).collect()),
        FstInput::new(gen::Front::MapBuilder, None, vec![(b"jan".to_vec(), 1), (b"feb".to_vec(), 2), (b"mar".to_vec(), 3)].into_iter().collect::<std::collections::BTreeMap<_, _>>().into_iter().collect()),
    ];
    let built: Vec<Vec<u8>> = smalls.iter().map(|i| gen::build(i).expect("small build").bytes).collect();
    let mut offsets = vec![0u64];
    for b in &built {
        offsets.push(offsets.last().unwrap() + b.len() as u64);
    }
    let total_positions = *offsets.last().unwrap();
    e.extra("exhaustive_corruption_files", json!(built.iter().map(|b| b.len()).collect::<Vec<_>>()));
    let built_ref = &built;
    let smalls_ref = &smalls;
    let offsets_ref = &offsets;
    e.run_enum("every-byte-x-every-value-of-small-fsts", total_positions, |idx, rec| {
        let fi = offsets_ref.iter().rposition(|&o| o <= idx).unwrap();
        let pos = (idx - offsets_ref[fi]) as usize;
        let orig = &built_ref[fi];
        for x in 1..=255u8 {
            let mut m = orig.clone();
            m[pos] ^= x;
            rec.nontrivial_by_construction();
            if let Err(f) = crate::engine::guarded(|| judge(orig, &m, rec, &|| format!("offset {} of {} xor {:#04x}", pos, orig.len(), x))) {
                let c = MutCase { input: smalls_ref[fi].clone(), pos, bytes: vec![x] };
                return Err((c.to_json(), f));
            }
        }
        Ok(())
    });
    e.run_prop(
        "random-fsts-bursts-1..4-bytes",
        e.tier.pick(300_000, 10_000_000),
        || {
            (gen::fst_input(24, 100), any::<u32>(), (1u8..=255), proptest::collection::vec(any::<u8>(), 0..3), prop::bool::weighted(0.3)).prop_map(|(input, p, first, rest, near_end)| {
                let mut bytes = vec![first];
                bytes.extend(rest);
                // bias positions toward the footer (count, root address, checksum)
                let pos = if near_end { usize::MAX - (p % 24) as usize } else { p as usize };
                MutCase { input, pos, bytes }
            })
        },
        |c| c.to_json(),
        |c, rec| {
            // positions given from the end are resolved here
            let mut c = c.clone();
            if c.pos > usize::MAX - 64 {
                let back = usize::MAX - c.pos;
                let len = gen::build(&c.input).map(|b| b.bytes.len()).unwrap_or(36);
                c.pos = len.saturating_sub(1 + back);
            }
            check_mut(&c, rec)
        },
    );
    if e.tier == crate::engine::Tier::Thorough {
        crate::fuzzrun::campaign(e, "mutate_verify", 200_000, 700);
    }
    for cls in ["mutation_caught_by_verify", "mutation_refused_at_open", "mutation_flips_version(checksum_missing)", "crc_via_public_api"] {
        // how a corrupted copy is turned away (at open or by verify) is the reader's choice
        e.expect_class(cls, 1);
    }
    for cls in ["mutation_detected", "crc_cut_inside_16_byte_block", "built_fst_verified", "checksum_field_special_value", "crc_long_input", "corrupted_file_over_64KiB", "corrupted_file_over_16MiB"] {
        e.require_class(cls, 1);
    }
}

pub fn replay(sub: &str, case: &Value) -> Option<CheckResult> {
    let mut rec = Rec::new(0);
    Some(crate::engine::guarded(|| {
        if sub == "crc-long-inputs-x-alignments" {
            let g = |k: &str| case.get(k).and_then(|x| x.as_u64()).map(|x| x as usize);
            let seed: u64 = case.get("data_seed").and_then(|x| x.as_str()).and_then(|x| x.parse().ok()).ok_or_else(bad)?;
            check_crc_long(&g("len").ok_or_else(bad)?, &g("offset").ok_or_else(bad)?, seed, &mut rec)
        } else if sub == "large-files-sampled-corruption" {
            check_big_corruption(&gen::Recipe::from_json(case).ok_or_else(bad)?, 400, &mut rec)
        } else if sub.starts_with("crc-") {
            check_crc(&CrcCase::from_json(case).ok_or_else(bad)?, &mut rec)
        } else if sub.starts_with("built-") {
            check_built(&FstInput::from_json(case).ok_or_else(bad)?, &mut rec)
        } else {
            check_mut(&MutCase::from_json(case).ok_or_else(bad)?, &mut rec)
        }
    }))
}
