//! C14 Traversals and set operations stream with memory independent of FST
//! size.

use fst::automaton::{Str, Subsequence};
use fst::raw::Fst;
use fst::{Automaton, IntoStreamer, Streamer};
use serde_json::{json, Value};

use crate::alloc;
use crate::aut::{ClassMap, Dfa};
use crate::engine::{CheckResult, Engine, Fail, Rec, H};
use crate::gen::Recipe;

fn build(n: u64, seed: u64, values: u8) -> Vec<u8> {
    let r = Recipe { kind: 1, n, seed, fanout: 5, keylen: 20, values };
    let mut b = fst::raw::Builder::new(Vec::with_capacity(1 << 20)).unwrap();
    r.for_each(|k, v| {
        if values == 0 {
            b.add(k).unwrap();
        } else {
            b.insert(k, v).unwrap();
        }
    });
    b.into_inner().unwrap()
}

/// `vf child-mem-traverse <n> <seed>`: prints one JSON object with, per
/// operation, the peak extra heap during the traversal, the number of
/// allocations and the number of items emitted.
pub fn child(args: &[String]) -> i32 {
    let n: u64 = args.get(0).and_then(|s| s.parse().ok()).unwrap_or(1000);
    let seed: u64 = args.get(1).and_then(|s| s.parse().ok()).unwrap_or(0);
    let files: Vec<Vec<u8>> = (0..8).map(|i| build(n, crate::engine::mix(seed, i), if i % 2 == 0 { 1 } else { 0 })).collect();
    let path = format!("{}/work/c14-{}.fst", crate::engine::out_dir(), std::process::id());
    let _ = std::fs::create_dir_all(format!("{}/work", crate::engine::out_dir()));
    std::fs::write(&path, &files[0]).unwrap();
    let fh = std::fs::File::open(&path).unwrap();
    let mm = unsafe { memmap2::Mmap::map(&fh) }.unwrap();
    let fsts: Vec<Fst<&[u8]>> = files.iter().map(|b| Fst::new(&b[..]).unwrap()).collect();
    let f = &fsts[0];
    // a probe key that exists and one that does not
    let first_key = f.stream().next().map(|(k, _)| k.to_vec()).unwrap_or_default();
    let mid_lo: Vec<u8> = {
        let mut k = first_key.clone();
        if let Some(b) = k.get_mut(1) {
            *b = b'b';
        }
        k
    };
    let mid_hi: Vec<u8> = {
        let mut k = first_key.clone();
        if let Some(b) = k.get_mut(1) {
            *b = b'e';
        }
        k
    };
    // accepts the keys with an even number of odd bytes
    let dfa = Dfa { classes: ClassMap::Parity, ncls: 2, trans: vec![vec![0, 1], vec![1, 0]], accept: vec![true, false], can: vec![true, true], always: vec![false, false] };
    let mut out = serde_json::Map::new();
    alloc::enable();
    macro_rules! measure {
        ($name:expr, $body:block) => {{
            let live0 = alloc::live();
            let cnt0 = alloc::count();
            alloc::reset_peak();
            let items: u64 = $body;
            let peak = alloc::peak().saturating_sub(live0);
            let allocs = alloc::count() - cnt0;
            out.insert($name.to_string(), json!({"peak_extra": peak, "allocs": allocs, "items": items}));
        }};
    }
    measure!("open_slice", {
        let g = Fst::new(&files[1][..]).unwrap();
        g.len() as u64
    });
    measure!("open_mmap_ref", {
        let g = Fst::new(&mm[..]).unwrap();
        g.len() as u64
    });
    // lookups on an FST whose nodes have every kind of fan-out (root 256 with
    // index table, 9..32 linear scan below it, one-transition tails)
    let bushy: Vec<u8> = {
        let mut keys: Vec<[u8; 6]> = (0..n.min(200_000)).map(|i| {
            let h = crate::engine::mix(seed ^ 0xb5, i);
            [(h >> 8) as u8, (h >> 16) as u8 % 24, (h >> 24) as u8 % 12, (h >> 32) as u8, (h >> 40) as u8, (h >> 48) as u8]
        }).collect();
        keys.sort();
        keys.dedup();
        let mut b = fst::raw::Builder::new(Vec::new()).unwrap();
        for (i, k) in keys.iter().enumerate() {
            b.insert(k, i as u64).unwrap();
        }
        b.into_inner().unwrap()
    };
    let bf = Fst::new(&bushy[..]).unwrap();
    measure!("point_lookups_bushy", {
        let mut hits = 0u64;
        for i in 0..20_000u64 {
            let h = crate::engine::mix(seed ^ 0xb5, i * 7);
            let k = [(h >> 8) as u8, (h >> 16) as u8 % 24, (h >> 24) as u8 % 12, (h >> 32) as u8, (h >> 40) as u8, (h >> 48) as u8];
            hits += bf.get(&k).is_some() as u64 + bf.contains_key(&k[..5]) as u64 + bf.contains_key(&k[..2]) as u64;
            let miss = [k[0], k[1] ^ 0x40, k[2], k[3], 0, 0];
            hits += bf.get(&miss).is_some() as u64;
        }
        hits
    });
    measure!("point_lookups", {
        let mut hits = 0u64;
        for i in 0..1000u64 {
            let mut k = first_key.clone_from_slice_noalloc(i);
            let _ = &mut k;
            if f.get(&k.0[..k.1]).is_some() {
                hits += 1;
            }
            if f.contains_key(&k.0[..k.1]) {
                hits += 1;
            }
        }
        hits += f.get(&first_key).is_some() as u64 + f.contains_key(&first_key) as u64 + f.len() as u64 + f.is_empty() as u64 + f.size() as u64 + f.fst_type();
        hits
    });
    measure!("stream", {
        let mut s = f.stream();
        let mut c = 0u64;
        while let Some(_) = s.next() {
            c += 1;
        }
        c
    });
    measure!("range", {
        let mut s = f.range().ge(&mid_lo).lt(&mid_hi).into_stream();
        let mut c = 0u64;
        while let Some(_) = s.next() {
            c += 1;
        }
        c
    });
    measure!("search_subsequence", {
        let mut s = f.search(Subsequence::new("ab")).into_stream();
        let mut c = 0u64;
        while let Some(_) = s.next() {
            c += 1;
        }
        c
    });
    measure!("search_startswith_str", {
        let mut s = f.search(Str::new("a").starts_with()).into_stream();
        let mut c = 0u64;
        while let Some(_) = s.next() {
            c += 1;
        }
        c
    });
    measure!("search_dfa_with_bounds", {
        let mut s = f.search(&dfa).ge(&mid_lo).into_stream();
        let mut c = 0u64;
        while let Some(_) = s.next() {
            c += 1;
        }
        c
    });
    measure!("search_with_state", {
        let mut s = f.search_with_state(Subsequence::new("ba")).into_stream();
        let mut c = 0u64;
        while let Some(_) = s.next() {
            c += 1;
        }
        c
    });
    // automaton with a dead state (pruning), Levenshtein, regex DFA, set operations over range / search streams
    let dead = Dfa { classes: ClassMap::IsA, ncls: 2, trans: vec![vec![0, 1], vec![2, 1], vec![2, 2]], accept: vec![true, true, false], can: vec![true, true, false], always: vec![false, false, false] };
    measure!("search_dfa_with_dead_state", {
        let mut s = f.search(&dead).into_stream();
        let mut c = 0u64;
        while let Some(_) = s.next() {
            c += 1;
        }
        c
    });
    let lev = fst::automaton::Levenshtein::new("aabbaabb", 2).unwrap();
    measure!("search_levenshtein", {
        let mut s = f.search(&lev).ge(&mid_lo).into_stream();
        let mut c = 0u64;
        while let Some(_) = s.next() {
            c += 1;
        }
        c
    });
    let re = regex_automata::dense::Builder::new().anchored(true).build("a[a-e]*b[a-e]*").unwrap();
    measure!("search_regex_dense", {
        let mut s = f.search(&re).into_stream();
        let mut c = 0u64;
        while let Some(_) = s.next() {
            c += 1;
        }
        c
    });
    measure!("union_of_range_and_search_streams_k3", {
        let mut ob = fst::raw::OpBuilder::new();
        ob.push(fsts[0].range().ge(&mid_lo));
        ob.push(fsts[1].search(Subsequence::new("ab")));
        ob.push(fsts[2].range().lt(&mid_hi));
        let mut s = ob.union();
        let mut c = 0u64;
        while let Some(_) = s.next() {
            c += 1;
        }
        c
    });
    for k in [2usize, 3, 8] {
        measure!(format!("union_k{}", k), {
            let mut s = fsts[..k].iter().collect::<fst::raw::OpBuilder>().union();
            let mut c = 0u64;
            while let Some(_) = s.next() {
                c += 1;
            }
            c
        });
        measure!(format!("intersection_k{}", k), {
            // intersect with itself k times so that items are emitted
            let mut ob = fst::raw::OpBuilder::new();
            for _ in 0..k {
                ob.push(f);
            }
            let mut s = ob.intersection();
            let mut c = 0u64;
            while let Some(_) = s.next() {
                c += 1;
            }
            c
        });
        measure!(format!("difference_k{}", k), {
            let mut s = fsts[..k].iter().collect::<fst::raw::OpBuilder>().difference();
            let mut c = 0u64;
            while let Some(_) = s.next() {
                c += 1;
            }
            c
        });
        measure!(format!("symmetric_difference_k{}", k), {
            let mut s = fsts[..k].iter().collect::<fst::raw::OpBuilder>().symmetric_difference();
            let mut c = 0u64;
            while let Some(_) = s.next() {
                c += 1;
            }
            c
        });
    }
    // every candidate of the first stream is subtracted (f minus f, f minus f minus a disjoint one):
    // nothing is emitted, and a per-candidate buffer that is only reset per emitted item would grow
    // with the run of subtracted keys (seeded change R14-e-b)
    measure!("difference_all_subtracted_k2", {
        let mut ob = fst::raw::OpBuilder::new();
        ob.push(f);
        ob.push(f);
        let mut s = ob.difference();
        let mut c = 0u64;
        while let Some(_) = s.next() {
            c += 1;
        }
        c
    });
    measure!("difference_all_subtracted_k3", {
        let mut ob = fst::raw::OpBuilder::new();
        ob.push(f);
        ob.push(&fsts[1]);
        ob.push(f);
        let mut s = ob.difference();
        let mut c = 0u64;
        while let Some(_) = s.next() {
            c += 1;
        }
        c
    });
    measure!("symmetric_difference_all_cancelled_k2", {
        let mut ob = fst::raw::OpBuilder::new();
        ob.push(f);
        ob.push(f);
        let mut s = ob.symmetric_difference();
        let mut c = 0u64;
        while let Some(_) = s.next() {
            c += 1;
        }
        c
    });
    // the Map / Set wrappers over the same bytes: opening and point lookups allocate nothing,
    // their streams and operations stay within the same bounds as the raw ones
    measure!("open_map_and_set_over_slices", {
        let m = fst::Map::new(&files[1][..]).unwrap();
        let st = fst::Set::new(&files[1][..]).unwrap();
        let c = Fst::new(std::borrow::Cow::Borrowed(&files[1][..])).unwrap();
        (m.len() + st.len() + c.len()) as u64
    });
    let wm = fst::Map::new(&files[0][..]).unwrap();
    let ws = fst::Set::new(&files[0][..]).unwrap();
    let wms: Vec<fst::Map<&[u8]>> = files.iter().map(|b| fst::Map::new(&b[..]).unwrap()).collect();
    let wss: Vec<fst::Set<&[u8]>> = files.iter().map(|b| fst::Set::new(&b[..]).unwrap()).collect();
    measure!("point_lookups_map_set", {
        let mut hits = 0u64;
        for i in 0..1000u64 {
            let k = first_key.clone_from_slice_noalloc(i);
            hits += wm.get(&k.0[..k.1]).is_some() as u64 + wm.contains_key(&k.0[..k.1]) as u64 + ws.contains(&k.0[..k.1]) as u64;
        }
        hits += wm.get(&first_key).is_some() as u64 + ws.contains(&first_key) as u64 + wm.len() as u64 + ws.is_empty() as u64 + wm.as_fst().size() as u64;
        hits
    });
    measure!("map_stream_keys_values", {
        let mut c = 0u64;
        let mut s = wm.stream();
        while let Some(_) = s.next() {
            c += 1;
        }
        let mut s = wm.keys();
        while let Some(_) = s.next() {
            c += 1;
        }
        let mut s = wm.values();
        while let Some(_) = s.next() {
            c += 1;
        }
        c
    });
    measure!("set_stream_range_search", {
        let mut c = 0u64;
        let mut s = ws.stream();
        while let Some(_) = s.next() {
            c += 1;
        }
        let mut s = ws.range().ge(&mid_lo).lt(&mid_hi).into_stream();
        while let Some(_) = s.next() {
            c += 1;
        }
        let mut s = ws.search(Subsequence::new("ab")).into_stream();
        while let Some(_) = s.next() {
            c += 1;
        }
        c
    });
    measure!("map_search_with_state_and_bounds", {
        let mut s = wm.search_with_state(Subsequence::new("ba")).ge(&mid_lo).into_stream();
        let mut c = 0u64;
        while let Some(_) = s.next() {
            c += 1;
        }
        c
    });
    measure!("map_union_k3", {
        let mut s = wms[..3].iter().collect::<fst::map::OpBuilder>().union();
        let mut c = 0u64;
        while let Some(_) = s.next() {
            c += 1;
        }
        c
    });
    measure!("set_ops_k3", {
        let mut c = 0u64;
        let mut s = wss[..3].iter().collect::<fst::set::OpBuilder>().symmetric_difference();
        while let Some(_) = s.next() {
            c += 1;
        }
        let mut s = wss[0].op().add(&wss[0]).add(&wss[0]).intersection();
        while let Some(_) = s.next() {
            c += 1;
        }
        let mut s = wss[..3].iter().collect::<fst::set::OpBuilder>().difference();
        while let Some(_) = s.next() {
            c += 1;
        }
        c
    });
    measure!("set_predicates_k2", {
        (wss[0].is_disjoint(&wss[1]) as u64) + (wss[0].is_subset(&wss[0]) as u64) * 2 + (wss[0].is_superset(&wss[0]) as u64) * 4 + (f.is_subset(f) as u64) * 8 + wss[0].len() as u64
    });
    let _ = std::fs::remove_file(&path);
    println!("{}", Value::Object(out));
    0
}

/// Allocation-free probe-key derivation: a fixed buffer and a length.
trait ProbeKey {
    fn clone_from_slice_noalloc(&self, i: u64) -> ([u8; 64], usize);
}

impl ProbeKey for Vec<u8> {
    fn clone_from_slice_noalloc(&self, i: u64) -> ([u8; 64], usize) {
        let mut buf = [0u8; 64];
        let n = self.len().min(64);
        buf[..n].copy_from_slice(&self[..n]);
        if n > 0 {
            let p = (i as usize) % n;
            buf[p] = b'a' + ((i / n as u64) % 5) as u8;
        }
        (buf, n)
    }
}

const ZERO_ALLOC_OPS: [&str; 6] = ["open_slice", "open_mmap_ref", "point_lookups", "point_lookups_bushy", "open_map_and_set_over_slices", "point_lookups_map_set"];

pub fn check(sizes: &(u64, u64, u64), rec: &mut Rec) -> Result<Value, Fail> {
    let (small_n, big_n, seed) = *sizes;
    let small = run_child2(small_n, seed)?;
    let big = run_child2(big_n, seed)?;
    let ops: Vec<String> = big.as_object().map(|o| o.keys().cloned().collect()).unwrap_or_default();
    for op in &ops {
        rec.eval();
        let g = |v: &Value, k: &str| v.get(op).and_then(|x| x.get(k)).and_then(|x| x.as_u64()).unwrap_or(0);
        let (ps, pb) = (g(&small, "peak_extra"), g(&big, "peak_extra"));
        let (items_s, items_b) = (g(&small, "items"), g(&big, "items"));
        if ZERO_ALLOC_OPS.contains(&op.as_str()) {
            for (which, v) in [("small", &small), ("large", &big)] {
                let a = g(v, "allocs");
                if a != 0 {
                    return Err(Fail::new("allocates", format!("{} performed {} heap allocations on the {} FST; opening over borrowed/mapped bytes and point lookups must allocate nothing", op, a, which)));
                }
            }
        } else {
            let allowed = ps + ps / 10 + 4096;
            if pb > allowed {
                return Err(Fail::new(
                    "heap-grows-with-size",
                    format!("{}: peak extra heap is {} bytes on an FST of {} keys ({} items emitted) but {} bytes on one of {} keys ({} items) — more than 1.10 x + 4 KiB", op, ps, small_n, items_s, pb, big_n, items_b),
                ));
            }
            // the number of allocations of a traversal depends on key lengths and stream counts,
            // not on how many keys there are (identical counts at both sizes on the pinned tree)
            let (als, alb) = (g(&small, "allocs"), g(&big, "allocs"));
            if alb > als + als / 4 + 8 {
                return Err(Fail::new(
                    "allocations-grow-with-size",
                    format!("{}: {} heap allocations on an FST of {} keys ({} items emitted) but {} on one of {} keys ({} items) - the number of allocations grows with the FST", op, als, small_n, items_s, alb, big_n, items_b),
                ));
            }
            // absolute sanity cap for k-way operations: generous, proportional to k
            let k = op.rsplit("_k").next().and_then(|s| s.parse::<u64>().ok()).unwrap_or(1);
            let cap = k * 16 * 1024 + 32 * 1024;
            if pb > cap {
                return Err(Fail::new("heap-too-large", format!("{}: peak extra heap {} bytes exceeds the generous bound {} for k={} and keys of <= 32 bytes", op, pb, cap, k)));
            }
        }
        if !rec.muted {
            if items_b >= 10_000 {
                rec.nontrivial(H::new().b(op.as_bytes()).u(big_n).get());
                rec.class("traversal_emits_10k_items");
            }
            rec.class(&format!("op:{}", op));
        }
    }
    Ok(json!({"small_n": small_n, "big_n": big_n, "small": small, "big": big}))
}

fn run_child2(n: u64, seed: u64) -> Result<Value, Fail> {
    let exe = std::env::current_exe().map_err(|e| Fail::new("harness-io", e.to_string()))?;
    let out = std::process::Command::new(exe).arg("child-mem-traverse").arg(n.to_string()).arg(seed.to_string()).output().map_err(|e| Fail::new("harness-io", e.to_string()))?;
    if !out.status.success() {
        return Err(Fail::new("harness-child", format!("probe child failed: {:?} {}", out.status, String::from_utf8_lossy(&out.stderr))));
    }
    serde_json::from_slice(&out.stdout).map_err(|e| Fail::new("harness-child", format!("probe child output not JSON: {}", e)))
}

pub fn run(e: &Engine) {
    e.set_rule("cases are (operation, k, FST size): in single-threaded child processes with a counting allocator, FSTs of two sizes (keys <= 32 bytes) are built, then for each of stream, range, search (Subsequence, StartsWith(Str), generated DFA with bounds), search_with_state and union/intersection/difference/symmetric_difference over k in {2,3,8} FSTs the peak extra heap from before into_stream() to exhaustion is measured; violation iff peak(large) > 1.10 * peak(small) + 4 KiB, or allocations(large) > 1.25 * allocations(small) + 8, or above a generous k-proportional cap; Fst::new / Map::new / Set::new over borrowed slices, a Cow and mapped bytes, get, contains_key, contains, len must perform zero allocations; the Map/Set streams (stream, keys, values, range, search, search_with_state), their OpBuilders and the subset/disjoint predicates are measured like the raw ones; evaluations counts (operation, size pair); non-trivial = traversal emitting >= 10^4 items; distinct by (operation, k, N)");
    e.assume("finitely many N; tolerances calibrated on the pinned tree (stream 2.6 kB, 3-way union 8.6 kB, identical at 10^4 and 10^6 keys)");
    let pairs: Vec<(u64, u64, u64)> = match e.tier {
        crate::engine::Tier::Quick => vec![(10_000, 400_000, e.seed), (20_000, 200_000, e.seed ^ 9)],
        crate::engine::Tier::Thorough => vec![(10_000, 1_000_000, e.seed), (10_000, 5_000_000, e.seed ^ 5), (50_000, 500_000, e.seed ^ 9)],
    };
    let results: std::sync::Mutex<Vec<Value>> = std::sync::Mutex::new(vec![]);
    e.run_list("probe-children", &pairs, |p| json!({"small_n": p.0, "big_n": p.1, "seed": p.2.to_string()}), |p, rec| {
        let v = check(p, rec)?;
        if rec.wants_sample() {
            rec.sample(json!({"small_n": p.0, "big_n": p.1, "stream": v["big"]["stream"], "union_k3": v["big"]["union_k3"], "open_slice": v["big"]["open_slice"]}));
        }
        results.lock().unwrap().push(v);
        Ok(())
    });
    e.extra("measurements", Value::Array(results.into_inner().unwrap()));
    e.require_class("traversal_emits_10k_items", 1);
    e.require_class("op:point_lookups", 1);
}

pub fn replay(_sub: &str, case: &Value) -> Option<CheckResult> {
    let mut rec = Rec::new(0);
    let p = (case.get("small_n")?.as_u64()?, case.get("big_n")?.as_u64()?, case.get("seed")?.as_str()?.parse().ok()?);
    Some(crate::engine::guarded(|| check(&p, &mut rec).map(|_| ())))
}
