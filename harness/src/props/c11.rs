//! C11 I/O failures surface as errors, never as panics or silent success.

use proptest::prelude::*;
use serde_json::{json, Value};

use crate::engine::{pairs_from_json, pairs_json, CheckResult, Engine, Fail, Rec, H};
use crate::gen::{self, Pairs};
use crate::props::c01::bad;
use crate::sinks::{FaultKind, FaultSink};

#[derive(Clone, Debug)]
pub struct Case {
    pub pairs: Pairs,
    pub set: bool,
    /// Some(i): write call i fails; None: the flush fails
    pub fail_write: Option<u64>,
    pub kind: FaultKind,
    pub cap: usize,
    /// which builder and which calls: see `VIA`
    pub via: u8,
}

/// 0 raw::Builder insert/add + finish; 1 MapBuilder/SetBuilder insert + finish; 2 the same +
/// into_inner; 3 extend_iter (raw for maps, SetBuilder for sets) + into_inner; 4 MapBuilder/
/// SetBuilder extend_stream + finish
pub const VIA: [&str; 5] = ["raw+finish", "wrapper+finish", "wrapper+into_inner", "extend_iter+into_inner", "extend_stream+finish"];

enum BB<W: std::io::Write> {
    Raw(fst::raw::Builder<W>),
    Map(fst::MapBuilder<W>),
    Set(fst::SetBuilder<W>),
}

impl<W: std::io::Write> BB<W> {
    fn new(sink: W, via: u8, set: bool) -> Result<BB<W>, fst::Error> {
        Ok(match (via, set) {
            (0, _) | (3, false) => BB::Raw(fst::raw::Builder::new(sink)?),
            (_, true) => BB::Set(fst::SetBuilder::new(sink)?),
            (_, false) => BB::Map(fst::MapBuilder::new(sink)?),
        })
    }
    fn insert(&mut self, set: bool, k: &[u8], v: u64) -> Result<(), fst::Error> {
        match self {
            BB::Raw(b) => if set { b.add(k) } else { b.insert(k, v) },
            BB::Map(b) => b.insert(k, v),
            BB::Set(b) => b.insert(k),
        }
    }
    fn bulk_iter(&mut self, pairs: &Pairs) -> Result<(), fst::Error> {
        match self {
            BB::Raw(b) => b.extend_iter(pairs.iter().map(|(k, v)| (k, fst::raw::Output::new(*v)))),
            BB::Map(b) => b.extend_iter(pairs.iter().map(|(k, v)| (k, *v))),
            BB::Set(b) => b.extend_iter(pairs.iter().map(|(k, _)| k)),
        }
    }
    fn bulk_stream(&mut self, pairs: &Pairs) -> Result<(), fst::Error> {
        match self {
            BB::Raw(b) => b.extend_stream(gen::VecStream::new(pairs)),
            BB::Map(b) => b.extend_stream(gen::MapVecStream(gen::VecStream::new(pairs))),
            BB::Set(b) => b.extend_stream(gen::KeyStream { items: pairs, pos: 0 }),
        }
    }
    fn end(self, into_inner: bool) -> Result<(), fst::Error> {
        match (self, into_inner) {
            (BB::Raw(b), false) => b.finish(),
            (BB::Raw(b), true) => b.into_inner().map(|_| ()),
            (BB::Map(b), false) => b.finish(),
            (BB::Map(b), true) => b.into_inner().map(|_| ()),
            (BB::Set(b), false) => b.finish(),
            (BB::Set(b), true) => b.into_inner().map(|_| ()),
        }
    }
}

impl Case {
    fn to_json(&self) -> Value {
        json!({"pairs": pairs_json(&self.pairs), "set": self.set, "fail_write": self.fail_write, "kind": self.kind.name(), "cap": self.cap.to_string(), "via": self.via})
    }
    fn from_json(v: &Value) -> Option<Case> {
        Some(Case {
            pairs: pairs_from_json(v.get("pairs")?)?,
            set: v.get("set")?.as_bool()?,
            fail_write: v.get("fail_write")?.as_u64(),
            kind: FaultKind::from_name(v.get("kind")?.as_str()?)?,
            cap: v.get("cap")?.as_str()?.parse().ok()?,
            via: v.get("via").and_then(|x| x.as_u64()).unwrap_or(0) as u8,
        })
    }
}

/// (number of write calls, bytes) of a fault-free build with the given cap.
fn measure(pairs: &Pairs, set: bool, cap: usize, via: u8) -> Result<(u64, Vec<u8>), Fail> {
    let (sink, st) = FaultSink::new(None, false, FaultKind::Other, cap);
    let fe = |e: fst::Error| Fail::new("io-error", format!("fault-free build ({}) failed: {:?}", VIA[via as usize % 5], e));
    let mut b = BB::new(sink, via, set).map_err(fe)?;
    match via {
        3 => b.bulk_iter(pairs).map_err(fe)?,
        4 => b.bulk_stream(pairs).map_err(fe)?,
        _ => {
            for (k, v) in pairs {
                b.insert(set, k, *v).map_err(fe)?;
            }
        }
    }
    b.end(via == 2 || via == 3).map_err(fe)?;
    let st = st.borrow();
    Ok((st.writes, st.data.clone()))
}

fn io_kind(r: &Result<(), fst::Error>) -> Option<std::io::ErrorKind> {
    match r {
        Err(fst::Error::Io(e)) => Some(e.kind()),
        _ => None,
    }
}

pub fn check(c: &Case, rec: &mut Rec) -> CheckResult {
    rec.eval();
    let (w, reference) = measure(&c.pairs, c.set, c.cap, c.via)?;
    let (sink, st) = FaultSink::new(c.fail_write, c.fail_write.is_none(), c.kind, c.cap);
    let want_kind = c.kind.expected();
    let kind_changed = std::cell::Cell::new(0u32);
    let desc = || format!("{}: fault {} at {} (of {} write calls), cap {}, keys {}", VIA[c.via as usize % 5], c.kind.name(), c.fail_write.map(|i| format!("write #{}", i)).unwrap_or("flush".into()), w, c.cap, crate::oracle::keys_show(&c.pairs));
    // one builder call: its result must be Err(Io(kind)) iff the fault fired during it
    let judge = |name: &str, fired_before: bool, r: &Result<(), fst::Error>| -> Result<bool, Fail> {
        let fired = st.borrow().fired;
        if fired && !fired_before {
            match io_kind(r) {
                // the property demands Err(Io); whether the ErrorKind is passed through
                // unchanged is recorded but not required
                Some(k) => {
                    if k != want_kind {
                        kind_changed.set(kind_changed.get() + 1);
                    }
                    Ok(true)
                }
                None => Err(Fail::new(
                    if r.is_ok() { "fault-swallowed" } else { "fault-wrong-error" },
                    format!("{} ran into the injected fault ({:?}) but returned {:?} instead of Err(Io(..)); {}", name, want_kind, r.as_ref().map_err(|e| format!("{:?}", e)), desc()),
                )),
            }
        } else if r.is_err() {
            Err(Fail::new("spurious-error", format!("{} returned {:?} although no fault was injected during it; {}", name, r.as_ref().map_err(|e| format!("{:?}", e)), desc())))
        } else {
            Ok(false)
        }
    };
    let outcome: Result<Result<&'static str, Fail>, String> = crate::engine::catch(|| {
        let mut b = match BB::new(sink, c.via, c.set) {
            Ok(b) => b,
            Err(e) => {
                let r: Result<(), fst::Error> = Err(e);
                return match judge("Builder::new", false, &r) {
                    Ok(true) => Ok("fault_in_new"),
                    Ok(false) => unreachable!(),
                    Err(f) => Err(f),
                };
            }
        };
        if st.borrow().fired {
            return Err(Fail::new("fault-swallowed", format!("Builder::new ran into the injected fault but returned Ok; {}", desc())));
        }
        if c.via == 3 || c.via == 4 {
            let r = if c.via == 3 { b.bulk_iter(&c.pairs) } else { b.bulk_stream(&c.pairs) };
            match judge(if c.via == 3 { "extend_iter" } else { "extend_stream" }, false, &r) {
                Ok(true) => return Ok("fault_in_insert"),
                Ok(false) => {}
                Err(f) => return Err(f),
            }
        } else {
            for (i, (k, v)) in c.pairs.iter().enumerate() {
                let r = b.insert(c.set, k, *v);
                match judge(&format!("insert #{}", i), false, &r) {
                    Ok(true) => return Ok("fault_in_insert"),
                    Ok(false) => {}
                    Err(f) => return Err(f),
                }
            }
        }
        let r = b.end(c.via == 2 || c.via == 3);
        match judge("finish", false, &r) {
            Ok(true) => Ok("fault_in_finish"),
            Ok(false) => {
                // reported as finished: every byte must have been accepted and flushed
                let s = st.borrow();
                if s.data != reference {
                    return Err(Fail::new("finished-incomplete", format!("finish returned Ok but the sink holds {} bytes, the complete file has {}; {}", s.data.len(), reference.len(), desc())));
                }
                if s.flushed_len != Some(s.data.len()) {
                    return Err(Fail::new("finished-unflushed", format!("finish returned Ok but the sink was not flushed after the last write; {}", desc())));
                }
                Ok("no_fault_reached")
            }
            Err(f) => Err(f),
        }
    });
    let class = match outcome {
        Err(p) => vfail!("panic", "builder panicked under an injected I/O fault: {}; {}", p, desc()),
        Ok(Err(f)) => return Err(f),
        Ok(Ok(c)) => c,
    };
    if !rec.muted {
        rec.class(class);
        if class != "no_fault_reached" {
            rec.class("fault_injected");
        }
        if kind_changed.get() > 0 {
            rec.class("io_error_kind_not_passed_through(informational)");
        }
        rec.class(&format!("kind:{}", c.kind.name()));
        rec.class(&format!("via:{}", VIA[c.via as usize % 5]));
        if c.fail_write.is_none() {
            rec.class("fault_in_flush");
        }
        let deep = c.fail_write.map(|i| i >= 2).unwrap_or(true);
        if deep && class != "no_fault_reached" {
            rec.nontrivial(H::new().pairs(&c.pairs).u(c.set as u64).u(c.fail_write.unwrap_or(u64::MAX)).u(c.kind as u64).u(c.cap as u64).u(c.via as u64).get());
            if rec.wants_sample() {
                rec.sample(json!(desc()));
            }
        }
    }
    Ok(())
}

/// Enumerate every fault position x kind for one sequence.
fn enumerate(pairs: &Pairs, set: bool, cap: usize, rec: &mut Rec) -> Result<(), (Value, Fail)> {
    // the number of write calls is measured per route (they need not agree)
    let mut ws = [0u64; 5];
    for via in 0..5u8 {
        ws[via as usize] = measure(pairs, set, cap, via).map_err(|f| (json!({"pairs": pairs_json(pairs), "set": set, "cap": cap.to_string()}), f))?.0;
    }
    let w = *ws.iter().max().unwrap();
    // the fault-free run of the same sequence exercises the success clause:
    // finish may report Ok only with the complete file accepted *and flushed
    // after the last write*
    {
        for via in 0..5u8 {
            let c = Case { pairs: pairs.clone(), set, fail_write: Some(w + 1_000_000), kind: FaultKind::Other, cap, via };
            crate::engine::guarded(|| check(&c, rec)).map_err(|f| (c.to_json(), f))?;
        }
    }
    for (ki, kind) in FaultKind::ALL.into_iter().enumerate() {
        for pos in 0..=w {
            // the route rotates with position and kind: each (position, route) pair is met
            // under at least one kind
            let via = ((pos + ki as u64) % 5) as u8;
            if pos > ws[via as usize] {
                continue;
            }
            let fail_write = if pos == ws[via as usize] { None } else { Some(pos) };
            if fail_write.is_none() && kind == FaultKind::OkZero {
                continue; // a zero-length write has no flush analogue
            }
            let c = Case { pairs: pairs.clone(), set, fail_write, kind, cap, via };
            crate::engine::guarded(|| check(&c, rec)).map_err(|f| (c.to_json(), f))?;
        }
    }
    Ok(())
}

pub fn run(e: &Engine) {
    e.set_rule("for every explored key sequence and each of five routes (raw builder + finish, MapBuilder/SetBuilder + finish, the same + into_inner, extend_iter + into_inner, extend_stream + finish) the fault-free build is measured (W write calls), then every write-call index 0..W and the final flush is made the single failing call, for each failure kind (Other, BrokenPipe, PermissionDenied, WouldBlock, UnexpectedEof, explicit WriteZero, Ok(0)); each builder call must return Err(Io(kind)) exactly when the fault fired during it, nothing may panic, and finish may return Ok only if the sink holds the complete file and was flushed after the last write; non-trivial = fault at write index >= 2 (node or footer emission) or in the flush; distinct by (sequence, position, kind, cap)");
    e.assume("Interrupted is not a failure (retried; owned by C07); behaviour of calls after the first error is not part of the statement");
    // fixed sequences incl. a fan-out > 32 node (the 256-byte index write is a fault site)
    let mut fixed: Vec<(Pairs, bool)> = vec![
        (vec![], true),
        (vec![(vec![], 9)], false),
        (vec![(b"abc".to_vec(), 300), (b"abd".to_vec(), 70000)], false),
        (gen::enum_values(3, &gen::u2()), false),
        ((0u8..40).map(|b| (vec![b'k', b * 3], b as u64 * 1000)).collect(), false),
        ((0u16..256).map(|b| (vec![b as u8], b as u64)).collect(), false),
        // every transition with an 8-byte output; a non-final one-transition node with a wide output
        ((0u16..256).map(|b| (vec![b'w', b as u8], crate::engine::mix(b as u64, 0xfa7))).collect(), false),
        (vec![(b"alpha".to_vec(), 1 << 40), (b"alpine".to_vec(), u64::MAX)], false),
    ];
    let u3 = gen::u3();
    for mask in [0x7fffu64, 0x1234, 0x0f0f, 0x5555, 0x2aaa] {
        fixed.push((gen::enum_values(0, &gen::subset(&u3, mask)), true));
        fixed.push((gen::enum_values(3, &gen::subset(&u3, mask)), false));
    }
    let fixed_ref = &fixed;
    e.run_enum("fixed-sequences-every-position-x-kind", fixed.len() as u64 * 2, |idx, rec| {
        let (pairs, set) = &fixed_ref[(idx / 2) as usize];
        let cap = if idx % 2 == 0 { usize::MAX } else { 3 };
        enumerate(pairs, *set, cap, rec)
    });
    // generated sequences, still every position x kind for each (a shrink
    // candidate costs W x 7 builds: keep the shrink budget small)
    e.max_shrink_iters.store(150, std::sync::atomic::Ordering::SeqCst);
    e.run_prop(
        "random-sequences-every-position-x-kind",
        e.tier.pick(500, 20_000),
        || (gen::small_pairs(16, 60), any::<bool>(), prop_oneof![3 => Just(usize::MAX), 1 => 1usize..9]),
        |(pairs, set, cap)| json!({"pairs": pairs_json(pairs), "set": set, "cap": cap.to_string()}),
        |(pairs, set, cap), rec| {
            let pairs: Pairs = if *set { pairs.iter().map(|p| (p.0.clone(), 0)).collect() } else { pairs.clone() };
            enumerate(&pairs, *set, *cap, rec).map_err(|(_, f)| f)
        },
    );
    for cls in ["fault_in_new", "fault_in_insert", "fault_in_finish"] {
        // which builder call a sink failure surfaces in depends on how the builder batches its writes
        e.expect_class(cls, 1);
    }
    for cls in ["fault_injected", "fault_in_flush", "kind:Ok(0)", "kind:WouldBlock", "no_fault_reached", "via:wrapper+finish", "via:wrapper+into_inner", "via:extend_iter+into_inner", "via:extend_stream+finish"] {
        e.require_class(cls, 1);
    }
}

pub fn replay(sub: &str, case: &Value) -> Option<CheckResult> {
    let mut rec = Rec::new(0);
    Some(crate::engine::guarded(|| {
        if case.get("kind").is_some() {
            check(&Case::from_json(case).ok_or_else(bad)?, &mut rec)
        } else {
            let _ = sub;
            let pairs = pairs_from_json(case.get("pairs").ok_or_else(bad)?).ok_or_else(bad)?;
            let set = case.get("set").and_then(|x| x.as_bool()).unwrap_or(false);
            let cap: usize = case.get("cap").and_then(|x| x.as_str()).and_then(|x| x.parse().ok()).unwrap_or(usize::MAX);
            enumerate(&pairs, set, cap, &mut rec).map_err(|(_, f)| f)
        }
    }))
}
