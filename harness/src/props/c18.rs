//! C18 Built-in automata and combinators match their specs with sound
//! pruning hints.

use std::collections::HashMap;

use fst::Automaton;
use proptest::prelude::*;
use serde_json::{json, Value};

use crate::aut::{self, ClassMap, Dfa, Expr};
use crate::engine::{show, CheckResult, Engine, Rec, H};
use crate::props::c01::bad;

fn class_maps(e: &Expr, out: &mut Vec<ClassMap>) {
    match e {
        Expr::Dfa(d) => {
            if !out.contains(&d.classes) {
                out.push(d.classes)
            }
        }
        Expr::StartsWith(a) | Expr::Compl(a) => class_maps(a, out),
        Expr::Union(a, b) | Expr::Inter(a, b) => {
            class_maps(a, out);
            class_maps(b, out);
        }
        _ => {}
    }
}

/// One byte per joint behaviour class of the expression's components.
fn representatives(e: &Expr) -> Vec<u8> {
    let mut pats = vec![];
    e.pattern_bytes(&mut pats);
    pats.sort();
    pats.dedup();
    let mut maps = vec![];
    class_maps(e, &mut maps);
    let mut seen: HashMap<Vec<usize>, u8> = HashMap::new();
    for b in 0..=255u8 {
        let mut sig: Vec<usize> = maps.iter().map(|m| m.class(b)).collect();
        sig.push(pats.iter().position(|&p| p == b).map(|i| i + 1).unwrap_or(0));
        seen.entry(sig).or_insert(b);
    }
    let mut r: Vec<u8> = seen.values().copied().collect();
    // bytes an implementation might single out although the specification does not
    // (sentinels, sign bit, ASCII edge): always part of the alphabet
    for extra in [0x00u8, 0xff, 0x80, 0x7f] {
        if !r.contains(&extra) {
            r.push(extra);
        }
    }
    r.sort();
    r
}

pub fn check(e: &Expr, rec: &mut Rec) -> CheckResult {
    let real = e.build();
    let reps = representatives(e);
    // explore the reference automaton
    let start = e.ref_start();
    let mut index: HashMap<Vec<u32>, usize> = HashMap::new();
    let mut states: Vec<Vec<u32>> = vec![start.clone()];
    let mut witness: Vec<Vec<u8>> = vec![vec![]];
    let mut succ: Vec<Vec<usize>> = vec![];
    index.insert(start, 0);
    let mut i = 0;
    const MAX_STATES: usize = 4000;
    while i < states.len() {
        let mut row = Vec::with_capacity(reps.len());
        for &b in &reps {
            let next = e.ref_step(&states[i], b);
            let id = match index.get(&next) {
                Some(&id) => id,
                None => {
                    let id = states.len();
                    if id >= MAX_STATES {
                        rec.class("reference_automaton_too_large(skipped)");
                        return Ok(());
                    }
                    index.insert(next.clone(), id);
                    states.push(next);
                    let mut w = witness[i].clone();
                    w.push(b);
                    witness.push(w);
                    id
                }
            };
            row.push(id);
        }
        succ.push(row);
        i += 1;
    }
    let n = states.len();
    let acc: Vec<bool> = states.iter().map(|s| e.ref_accepts(s)).collect();
    // reach[s]: an accepting state reachable in >= 0 steps; all[s]: every reachable state accepting
    let mut reach = acc.clone();
    let mut all = acc.clone();
    loop {
        let mut changed = false;
        for s in 0..n {
            if !reach[s] && succ[s].iter().any(|&t| reach[t]) {
                reach[s] = true;
                changed = true;
            }
            if all[s] && succ[s].iter().any(|&t| !all[t]) {
                all[s] = false;
                changed = true;
            }
        }
        if !changed {
            break;
        }
    }
    // drive the real automaton along a string and compare at every prefix
    let mut saw_can_false = false;
    let mut saw_always_true = false;
    let mut run = |w: &[u8], rec: &mut Rec| -> CheckResult {
        let mut st = real.start();
        let mut rs = 0usize;
        for step in 0..=w.len() {
            rec.eval();
            let m = real.is_match(&st);
            vensure!(m == acc[rs], "language", "{}: after input {} is_match={} but the specification says {}", e.show(), show(&w[..step]), m, acc[rs]);
            let den = e.denotes(&w[..step]);
            assert!(den == acc[rs], "harness bug: reference state machine and denotation disagree on {:?} for {}", &w[..step], e.show());
            let c = real.can_match(&st);
            if !c {
                saw_can_false = true;
                vensure!(!reach[rs], "can-match-unsound", "{}: after input {} can_match=false but a continuation still matches", e.show(), show(&w[..step]));
            }
            let a = real.will_always_match(&st);
            if a {
                saw_always_true = true;
                vensure!(all[rs], "will-always-match-unsound", "{}: after input {} will_always_match=true but some continuation does not match", e.show(), show(&w[..step]));
            }
            if step < w.len() {
                st = real.accept(&st, w[step]);
                let ri = reps.iter().position(|&r| r == w[step]).expect("string over representatives");
                rs = succ[rs][ri];
            }
        }
        Ok(())
    };
    // (1) shortest witness of every reference state, extended by one more letter
    for wi in 0..n {
        let w = witness[wi].clone();
        run(&w, rec)?;
    }
    // (2) every string over the representatives up to length L
    let l = if reps.len() <= 3 { 5 } else if reps.len() <= 5 { 4 } else if reps.len() <= 9 { 3 } else { 2 };
    let mut w: Vec<usize> = vec![];
    loop {
        let bytes: Vec<u8> = w.iter().map(|&i| reps[i]).collect();
        if bytes.len() == l {
            run(&bytes, rec)?;
        }
        // next string in length-lexicographic order, only full-length ones are run (prefixes are checked on the way)
        if w.len() < l {
            w.push(0);
            continue;
        }
        loop {
            match w.pop() {
                None => break,
                Some(x) if x + 1 < reps.len() => {
                    w.push(x + 1);
                    break;
                }
                Some(_) => {}
            }
        }
        if w.is_empty() {
            break;
        }
    }
    if !rec.muted {
        rec.class(&format!("depth_{}", e.depth()));
        if saw_can_false {
            rec.class("can_match_false_observed");
        }
        if saw_always_true {
            rec.class("will_always_match_true_observed");
        }
        if e.depth() >= 2 && e.contains_wrapper() && (saw_can_false || saw_always_true) && e.has_nontrivial_hint_leaf() {
            rec.nontrivial(H::new().b(e.show().as_bytes()).get());
            if rec.wants_sample() {
                rec.sample(json!({"expr": e.show(), "reference_states": n, "alphabet": reps.len()}));
            }
        }
    }
    Ok(())
}

/// Long patterns: the reference automaton is too large to explore over all short strings, so
/// the real automaton is driven along strings derived from the pattern itself (the pattern,
/// its prefixes, one-byte edits, padded variants) and compared with the denotation and with
/// the reference hints at every prefix.
fn check_long(e: &Expr, rec: &mut Rec) -> CheckResult {
    let real = e.build();
    let mut pats = vec![];
    e.pattern_bytes(&mut pats);
    let p: Vec<u8> = pats[..pats.len().min(300)].to_vec();
    let mut inputs: Vec<Vec<u8>> = vec![p.clone(), vec![], p[..p.len() / 2].to_vec()];
    for cut in [1usize, 254, 255, 256, 257, p.len().saturating_sub(1)] {
        let c = cut.min(p.len());
        let mut x = p.clone();
        if c < x.len() {
            x[c] ^= 3; // substitution
        }
        inputs.push(x);
        let mut y = p.clone();
        y.insert(c, b'c'); // insertion
        inputs.push(y);
        let mut z = p.clone();
        if c < z.len() {
            z.remove(c); // deletion
        }
        inputs.push(z);
    }
    let mut padded = p.clone();
    padded.extend_from_slice(b"abab");
    inputs.push(padded);
    let interleaved: Vec<u8> = p.iter().flat_map(|&b| [b, b'c']).collect();
    inputs.push(interleaved);
    for w in inputs {
        let mut st = real.start();
        let mut rs = e.ref_start();
        for step in 0..=w.len() {
            rec.eval();
            let m = real.is_match(&st);
            let want = e.ref_accepts(&rs);
            vensure!(m == want, "language", "{}…: after {} input bytes is_match={} but the specification says {}", &e.show()[..60.min(e.show().len())], step, m, want);
            if step == w.len() {
                vensure!(want == e.denotes(&w), "language", "reference state machine and denotation disagree (harness)");
            }
            if !real.can_match(&st) {
                // sound only if no continuation matches: try the natural continuations
                for cont in [&p[..], &p[step.min(p.len())..], b"", b"a", b"b"] {
                    let mut full = w[..step].to_vec();
                    full.extend_from_slice(cont);
                    vensure!(!e.denotes(&full), "can-match-unsound", "long pattern: can_match=false after {} bytes but a continuation matches", step);
                }
            }
            if real.will_always_match(&st) {
                for cont in [&b"c"[..], b"", b"zzzz", &p[..5.min(p.len())]] {
                    let mut full = w[..step].to_vec();
                    full.extend_from_slice(cont);
                    vensure!(e.denotes(&full), "will-always-match-unsound", "long pattern: will_always_match=true after {} bytes but a continuation does not match", step);
                }
            }
            if step < w.len() {
                st = real.accept(&st, w[step]);
                rs = e.ref_step(&rs, w[step]);
            }
        }
    }
    rec.nontrivial(H::new().b(e.show().as_bytes()).get());
    Ok(())
}

fn leaves() -> Vec<Expr> {
    let mut out = vec![
        Expr::Str(String::new()),
        Expr::Str("a".into()),
        Expr::Str("ab".into()),
        Expr::Str("é".into()),
        Expr::Subseq(String::new()),
        Expr::Subseq("a".into()),
        Expr::Subseq("ab".into()),
        Expr::Subseq("aa".into()),
        Expr::Always,
    ];
    for n in 1..=2usize {
        for idx in 0..aut::dfa_count(n, 2) {
            let d = aut::dfa_by_index(n, ClassMap::IsA, idx);
            for v in aut::sound_hint_variants(&d) {
                out.push(Expr::Dfa(v));
            }
        }
    }
    out
}

fn three_state_leaves(seed: u64, count: usize) -> Vec<Expr> {
    let total = aut::dfa_count(3, 2);
    (0..count as u64)
        .flat_map(|i| {
            let d: Dfa = aut::dfa_by_index(3, ClassMap::TWO[(i % 3) as usize], (crate::engine::mix(seed, i)) % total);
            let vs = aut::sound_hint_variants(&d);
            let pick = (crate::engine::mix(seed ^ 7, i) % vs.len() as u64) as usize;
            vec![Expr::Dfa(vs[pick].clone()), Expr::Dfa(vs[0].clone())]
        })
        .collect()
}

/// Language and hint soundness of one automaton, by brute force: every string up to length 4 over
/// {a, b, 0xff} with every continuation up to length 3. Only evidence found within that depth counts,
/// so the judgement is sound. Returns the accepted strings.
fn brute<A: Automaton>(a: &A, what: &str) -> Result<Vec<Vec<u8>>, crate::engine::Fail> {
    const SIGMA: [u8; 3] = [b'a', b'b', 0xff];
    let mut words: Vec<Vec<u8>> = vec![vec![]];
    let mut layer: Vec<Vec<u8>> = vec![vec![]];
    for _ in 0..4 {
        let mut next = vec![];
        for w in &layer {
            for &c in &SIGMA {
                let mut x = w.clone();
                x.push(c);
                next.push(x);
            }
        }
        words.extend(next.iter().cloned());
        layer = next;
    }
    let conts: Vec<&Vec<u8>> = words.iter().filter(|w| w.len() <= 3).collect();
    let run = |w: &[u8]| {
        let mut st = a.start();
        for &b in w {
            st = a.accept(&st, b);
        }
        st
    };
    let mut accepted = vec![];
    for w in &words {
        let st = run(w);
        if a.is_match(&st) {
            accepted.push(w.clone());
        }
        let (can, always) = (a.can_match(&st), a.will_always_match(&st));
        if can && !always {
            continue;
        }
        for c in &conts {
            let mut wc = w.clone();
            wc.extend_from_slice(c);
            let m = a.is_match(&run(&wc));
            if !can && m {
                return Err(crate::engine::Fail::new("can-match-unsound", format!("{}: after input {} can_match=false but the continuation {} matches", what, show(w), show(c))));
            }
            if always && !m {
                return Err(crate::engine::Fail::new("will-always-match-unsound", format!("{}: after input {} will_always_match=true but the continuation {} does not match", what, show(w), show(c))));
            }
        }
    }
    Ok(accepted)
}

/// Every search(&aut) goes through the blanket impl for references: a borrowed automaton, alone and
/// under each combinator, must have the language of the owned one and sound hints of its own.
fn check_borrowed<A: Automaton + Clone>(leaf: &A, name: &str, rec: &mut Rec) -> CheckResult {
    rec.eval();
    let base = brute(leaf, name)?;
    let r = brute(&leaf, &format!("&{}", name))?;
    vensure!(r == base, "borrowed-language", "&{} accepts a different set of strings (up to length 4 over a, b, 0xff) than {}", name, name);
    let owned = brute(&leaf.clone().complement(), &format!("{}.complement()", name))?;
    let borrowed = brute(&(&leaf).complement(), &format!("(&{}).complement()", name))?;
    vensure!(owned == borrowed, "borrowed-language", "(&{}).complement() accepts a different set of strings than {}.complement()", name, name);
    let owned = brute(&leaf.clone().starts_with(), &format!("{}.starts_with()", name))?;
    let borrowed = brute(&(&leaf).starts_with(), &format!("(&{}).starts_with()", name))?;
    vensure!(owned == borrowed, "borrowed-language", "(&{}).starts_with() accepts a different set of strings than {}.starts_with()", name, name);
    let other = fst::automaton::Str::new("ab");
    let owned = brute(&leaf.clone().union(other.clone()), &format!("{}.union(Str(ab))", name))?;
    let borrowed = brute(&(&leaf).union(&other), &format!("(&{}).union(&Str(ab))", name))?;
    vensure!(owned == borrowed, "borrowed-language", "(&{}).union(&Str(ab)) accepts a different set of strings than the owned composition", name);
    let owned = brute(&leaf.clone().intersection(other.clone().complement()), &format!("{}.intersection(Str(ab).complement())", name))?;
    let oc = (&other).complement();
    let borrowed = brute(&(&leaf).intersection(&oc), &format!("(&{}).intersection(&(&Str(ab)).complement())", name))?;
    vensure!(owned == borrowed, "borrowed-language", "(&{}).intersection(&..) accepts a different set of strings than the owned composition", name);
    if !rec.muted {
        rec.class("borrowed_components");
        rec.nontrivial(H::new().b(name.as_bytes()).u(0xb0).get());
    }
    Ok(())
}

fn check_borrowed_named(n: &String, rec: &mut Rec) -> CheckResult {
    // names are Str("..") / Subsequence("..") with a debug-quoted pattern, or AlwaysMatch
    let pat = |n: &str| -> String { n.split_once('(').map(|x| x.1.trim_end_matches(')')).map(|q| q.trim_matches('"').replace("\\u{ff}", "\u{ff}")).unwrap_or_default() };
    if n.starts_with("Str(") {
        let p = pat(n);
        check_borrowed(&fst::automaton::Str::new(&p), n, rec)
    } else if n.starts_with("Subsequence(") {
        let p = pat(n);
        check_borrowed(&fst::automaton::Subsequence::new(&p), n, rec)
    } else {
        check_borrowed(&fst::automaton::AlwaysMatch, n, rec)
    }
}

pub fn run(e: &Engine) {
    e.set_rule("cases are automaton expression trees over leaves {Str, Subsequence (patterns over a,b,e-acute, incl. empty), AlwaysMatch, component DFAs with <= 3 states over 2 byte classes with every sound assignment of both hints} and operators {starts_with, union, intersection, complement}, built with the crate's own combinators through a type-erasing adapter; oracle = an explicit reference state machine (products, latch, complement) explored completely over one representative byte per joint behaviour class, cross-checked against a denotational definition; checked at every prefix of the shortest witness of every reference state and of every string up to length 2..5 over the representatives: is_match == reference acceptance, can_match=false only if no accepting state is reachable, will_always_match=true only if every reachable state accepts; evaluations counts (expression, prefix) checks; non-trivial = depth >= 2, containing complement or starts_with, over a leaf with a non-trivial hint, with a pruning hint actually observed; distinct by expression");
    e.assume("component automata generated by the harness have sound hints by construction (checked against exact reachability)");
    // borrowed automata (the blanket impl for references), alone and under each combinator
    let names: Vec<String> = ["", "a", "ab", "ba", "aab", "\u{ff}"].iter().map(|p| format!("Str({:?})", p)).chain(["", "a", "ab", "aa", "bab"].iter().map(|p| format!("Subsequence({:?})", p))).chain(["AlwaysMatch".to_string()]).collect();
    e.run_list("borrowed-automata-under-each-combinator", &names, |n| json!({"borrowed": n}), |n, rec| check_borrowed_named(n, rec));
    let lv = leaves();
    let nl = lv.len() as u64;
    e.extra("enumerated_leaves", json!(nl));
    let lv_ref = &lv;
    // depth <= 1: every unary/binary operator over every leaf (pair)
    e.run_enum("all-depth<=1-over-leaf-set", nl + 2 * nl + 2 * nl * nl, |idx, rec| {
        let ex = if idx < nl {
            lv_ref[idx as usize].clone()
        } else if idx < 3 * nl {
            let i = idx - nl;
            let a = Box::new(lv_ref[(i % nl) as usize].clone());
            if i / nl == 0 { Expr::StartsWith(a) } else { Expr::Compl(a) }
        } else {
            let i = idx - 3 * nl;
            let a = Box::new(lv_ref[(i % nl) as usize].clone());
            let b = Box::new(lv_ref[((i / nl) % nl) as usize].clone());
            if i / (nl * nl) == 0 { Expr::Union(a, b) } else { Expr::Inter(a, b) }
        };
        crate::engine::guarded(|| check(&ex, rec)).map_err(|f| (ex.to_json(), f))
    });
    // depth 2: every unary operator over every depth-1 expression of a reduced leaf set
    let reduced: Vec<Expr> = lv.iter().step_by(e.tier.pick(2, 1)).cloned().collect();
    let nr = reduced.len() as u64;
    let red_ref = &reduced;
    let d1_count = 2 * nr + 2 * nr * nr;
    e.run_enum("all-depth-2-unary-over-depth-1", 2 * d1_count + 2 * nr * nr * 2, |idx, rec| {
        let depth1 = |i: u64| -> Expr {
            if i < 2 * nr {
                let a = Box::new(red_ref[(i % nr) as usize].clone());
                if i / nr == 0 { Expr::StartsWith(a) } else { Expr::Compl(a) }
            } else {
                let i = i - 2 * nr;
                let a = Box::new(red_ref[(i % nr) as usize].clone());
                let b = Box::new(red_ref[((i / nr) % nr) as usize].clone());
                if i / (nr * nr) == 0 { Expr::Union(a, b) } else { Expr::Inter(a, b) }
            }
        };
        let ex = if idx < 2 * d1_count {
            let inner = Box::new(depth1(idx % d1_count));
            if idx / d1_count == 0 { Expr::StartsWith(inner) } else { Expr::Compl(inner) }
        } else {
            // binary over (unary(leaf), leaf)
            let i = idx - 2 * d1_count;
            let a = depth1(i % (2 * nr));
            let b = red_ref[((i / (2 * nr)) % nr) as usize].clone();
            if i / (2 * nr * nr) == 0 { Expr::Union(Box::new(a), Box::new(b)) } else { Expr::Inter(Box::new(b), Box::new(a)) }
        };
        crate::engine::guarded(|| check(&ex, rec)).map_err(|f| (ex.to_json(), f))
    });
    // 3-state component DFAs under every operator
    let l3 = three_state_leaves(e.seed, e.tier.pick(150, 3000));
    let l3_ref = &l3;
    e.run_enum("three-state-components-under-operators", l3.len() as u64 * 6, |idx, rec| {
        let d = l3_ref[(idx / 6) as usize].clone();
        let other = lv_ref[(crate::engine::mix(idx, 3) % nl) as usize].clone();
        let ex = match idx % 6 {
            0 => d,
            1 => Expr::StartsWith(Box::new(d)),
            2 => Expr::Compl(Box::new(d)),
            3 => Expr::Union(Box::new(d), Box::new(other)),
            4 => Expr::Inter(Box::new(other), Box::new(d)),
            _ => Expr::Compl(Box::new(Expr::StartsWith(Box::new(Expr::Inter(Box::new(d), Box::new(other)))))),
        };
        crate::engine::guarded(|| check(&ex, rec)).map_err(|f| (ex.to_json(), f))
    });
    e.run_prop("random-depth-3", e.tier.pick(300_000, 5_000_000), || aut::expr_strategy(3, 3), |c| c.to_json(), check);
    e.run_prop("random-depth-4", e.tier.pick(40_000, 1_000_000), || aut::expr_strategy(4, 3), |c| c.to_json(), check);
    // long patterns (beyond 255 bytes) with repeated bytes, directly and under one operator
    let longs: Vec<Expr> = {
        let p300: String = (0..300).map(|i| if i % 7 == 3 { 'b' } else { 'a' }).collect();
        let p256: String = std::iter::repeat('a').take(256).collect();
        let p257: String = (0..257).map(|i| if i % 2 == 0 { 'a' } else { 'b' }).collect();
        let mut v = vec![];
        for p in [p300, p256, p257] {
            v.push(Expr::Str(p.clone()));
            v.push(Expr::Subseq(p.clone()));
            v.push(Expr::StartsWith(Box::new(Expr::Str(p.clone()))));
            v.push(Expr::Compl(Box::new(Expr::Subseq(p.clone()))));
            v.push(Expr::Inter(Box::new(Expr::Subseq(p.clone())), Box::new(Expr::Str(p))));
        }
        v
    };
    e.run_list("long-patterns", &longs, |c| c.to_json(), |c, rec| {
        rec.class("pattern_longer_than_255_bytes");
        check_long(c, rec)
    });
    for cls in ["can_match_false_observed", "will_always_match_true_observed"] {
        // hints may legitimately be less precise
        e.expect_class(cls, 1);
    }
    for cls in ["depth_0", "depth_1", "depth_2", "depth_3", "depth_4", "pattern_longer_than_255_bytes", "borrowed_components"] {
        e.require_class(cls, 1);
    }
}

pub fn replay(_sub: &str, case: &Value) -> Option<CheckResult> {
    if let Some(n) = case.get("borrowed").and_then(|x| x.as_str()) {
        let mut rec = Rec::new(0);
        let n = n.to_string();
        return Some(crate::engine::guarded(|| check_borrowed_named(&n, &mut rec)));
    }
    let mut rec = Rec::new(0);
    Some(crate::engine::guarded(|| check(&Expr::from_json(case).ok_or_else(bad)?, &mut rec)))
}
