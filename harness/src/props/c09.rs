//! C09 Builder output conforms to the documented version-3 on-disk format.

use proptest::prelude::*;
use serde_json::{json, Value};

use crate::engine::{CheckResult, Engine, Fail, Rec, Tier, H};
use crate::gen::{self, FstInput, Recipe};
use crate::props::c01::bad;
use crate::refcodec;

pub fn check(input: &FstInput, rec: &mut Rec) -> CheckResult {
    rec.eval();
    let built = match gen::build(input) {
        Ok(b) => b,
        Err(e) => vfail!("build-error", "valid input rejected: {}", e),
    };
    check_bytes(&built.bytes, input.ty, &input.pairs, rec, || input.sample(), input.hash())
}

pub fn check_bytes(bytes: &[u8], ty: u64, pairs: &gen::Pairs, rec: &mut Rec, sample: impl FnOnce() -> Value, hash: u64) -> CheckResult {
    let d = match refcodec::conforms_v3(bytes, ty, pairs) {
        Ok(d) => d,
        Err(e) => vfail!("format", "builder output is not a well-formed version-3 file: {}; input {}", e, crate::oracle::keys_show(pairs)),
    };
    if !rec.muted {
        let mut forms = [false; 3];
        let mut wide_delta = false;
        let mut big = false;
        for n in d.nodes.values() {
            forms[n.form as usize] = true;
            if n.tsize >= 2 {
                wide_delta = true;
                rec.class(&format!("delta_width_{}", n.tsize));
            }
            let nt = n.trans.len();
            if n.form == 0 {
                let bucket = match nt {
                    0 => "0",
                    1 => "1(final)",
                    2 => "2",
                    3..=31 => "3..31",
                    32 => "32",
                    33 => "33",
                    34..=63 => "34..63",
                    64..=254 => "64..254",
                    255 => "255",
                    _ => "256",
                };
                rec.class(&format!("anytrans_ntrans_{}{}{}", bucket, if n.is_final { "_final" } else { "" }, if n.osize > 0 { "_out" } else { "" }));
            } else {
                let common = crate::frozen_common_inputs::RANK[n.trans[0].0 as usize] < 63;
                rec.class(&format!("onetrans{}_{}", if n.form == 2 { "next" } else { "" }, if common { "common_input" } else { "explicit_input" }));
            }
            if nt > 32 {
                big = true;
            }
        }
        if d.uses_sentinel {
            rec.class("uses_sentinel");
        }
        if d.root == 0 {
            rec.class("root_is_sentinel");
        }
        let nforms = forms.iter().filter(|&&f| f).count();
        if nforms >= 3 || big || wide_delta {
            rec.nontrivial(crate::engine::fnv(bytes) ^ hash.rotate_left(1));
            if rec.wants_sample() {
                rec.sample(json!({"input": sample(), "file_bytes": bytes.len(), "nodes": d.nodes.len()}));
            }
        }
    }
    Ok(())
}

fn check_recipe(r: &Recipe, rec: &mut Rec) -> CheckResult {
    rec.eval();
    let pairs = r.pairs();
    let set = r.values == 0;
    let bytes = gen::build_plain(&pairs, set).map_err(|e| Fail::new("build-error", e))?;
    let h = H::new().u(r.n).u(r.seed).u(r.kind as u64).get();
    if bytes.len() > 1 << 16 {
        rec.class("file_over_64KiB");
    }
    if bytes.len() > 1 << 24 {
        rec.class("file_over_16MiB");
    }
    check_bytes(&bytes, 0, &pairs, rec, || r.to_json(), h)
}

pub fn run(e: &Engine) {
    crate::crcref::self_test();
    e.set_rule("cases are builds from C01's input space (all shapes, all 14 front ends, arbitrary type tags, hook geometries) plus large recipe builds whose files need 2-, 3- (and 4-byte in thorough) address deltas; each file is parsed by an independent decoder written from the format description (header, footer, every node layout, strictly earlier in-bounds targets, index tables, exact tiling of the body, checksum by a bitwise CRC) and decoded to a map without the crate's reader; non-trivial = file with >= 3 node forms or a node with > 32 transitions or a delta of >= 2 bytes; distinct by file digest");
    e.assume("the decoder is the harness's reading of the format comments in node.rs/build.rs/mod.rs (DESIGN.md Appendix A) with the 256-entry input-rank table frozen from the pinned revision; minimal pack widths and choice of node form are writer policy and are not asserted");
    e.run_enum("u3-subsets-x-patterns", 32768 * 3, |idx, rec| {
        let u3 = gen::u3();
        let mask = idx & 0x7fff;
        let pattern = [0u64, 3, 5][(idx >> 15) as usize];
        let keys = gen::subset(&u3, mask);
        let front = if pattern == 0 { gen::Front::SetBuilder } else { gen::Front::MapBuilder };
        let geom = if mask % 2 == 0 { None } else { Some((2, 3)) };
        let input = FstInput::new(front, geom, gen::enum_values(pattern, &keys));
        crate::engine::guarded(|| check(&input, rec)).map_err(|f| (input.to_json(), f))
    });
    e.run_prop(
        "random-shapes-all-front-ends",
        e.tier.pick(60_000, 1_000_000),
        || gen::fst_input(40, e.tier.pick(300, 70_000)),
        |c| c.to_json(),
        check,
    );
    let (ncases, max_n) = match e.tier {
        Tier::Quick => (16, 200_000),
        Tier::Thorough => (48, 3_000_000),
    };
    e.run_prop("large-recipes", ncases, || crate::props::c01::recipe_strategy(max_n), |c| c.to_json(), check_recipe);
    // one file beyond 16 MiB in every tier: address deltas of 4 bytes
    let huge = vec![Recipe { kind: 1, n: e.tier.pick(2_300_000, 4_000_000), seed: e.seed ^ 0x16, fanout: 16, keylen: 12, values: 2 }];
    e.run_list("one-file-over-16MiB", &huge, |r| r.to_json(), check_recipe);
    e.require_class("delta_width_4", 1);
    for cls in ["anytrans_ntrans_32", "anytrans_ntrans_0_final_out", "onetransnext_common_input", "onetrans_explicit_input", "root_is_sentinel"] {
        // which of the permitted layouts the builder picks for a node is its own choice
        e.expect_class(cls, 1);
    }
    for cls in ["anytrans_ntrans_256", "anytrans_ntrans_33", "delta_width_2", "delta_width_3"] {
        e.require_class(cls, 1);
    }
    if e.tier == Tier::Thorough {
        e.require_class("delta_width_4", 1);
    }
}

pub fn replay(sub: &str, case: &Value) -> Option<CheckResult> {
    let mut rec = Rec::new(0);
    Some(crate::engine::guarded(|| match sub {
        "large-recipes" | "one-file-over-16MiB" => check_recipe(&Recipe::from_json(case).ok_or_else(bad)?, &mut rec),
        _ => check(&FstInput::from_json(case).ok_or_else(bad)?, &mut rec),
    }))
}
