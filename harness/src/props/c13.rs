//! C13 Construction memory is bounded independently of the number of keys.

use std::io::Write;

use serde_json::{json, Value};

use crate::alloc;
use crate::engine::{CheckResult, Engine, Fail, Rec, H};
use crate::gen::Recipe;
use crate::props::c01::bad;

#[derive(Clone, Debug)]
pub struct Config {
    pub n: u64,
    pub fanout: u8,
    pub keylen: u8,
    pub kind: u8,
    pub values: u8,
    pub geom: Option<(usize, usize)>,
    pub seed: u64,
    /// 0: the sink takes every write whole; k > 0: it takes at most k bytes per call and
    /// answers every 7th call with ErrorKind::Interrupted (still discarding everything)
    pub cap: u8,
}

impl Config {
    fn to_json(&self) -> Value {
        json!({"n": self.n, "fanout": self.fanout, "keylen": self.keylen, "kind": self.kind, "values": self.values,
               "geometry": self.geom.map(|(r, c)| json!([r, c])), "seed": self.seed.to_string(), "sink_cap": self.cap})
    }
    fn from_json(v: &Value) -> Option<Config> {
        Some(Config {
            n: v.get("n")?.as_u64()?,
            fanout: v.get("fanout")?.as_u64()? as u8,
            keylen: v.get("keylen")?.as_u64()? as u8,
            kind: v.get("kind")?.as_u64()? as u8,
            values: v.get("values")?.as_u64()? as u8,
            geom: match v.get("geometry") {
                Some(Value::Array(a)) if a.len() == 2 => Some((a[0].as_u64()? as usize, a[1].as_u64()? as usize)),
                _ => None,
            },
            seed: v.get("seed")?.as_str()?.parse().ok()?,
            cap: v.get("sink_cap").and_then(|x| x.as_u64()).unwrap_or(0) as u8,
        })
    }
    fn cells(&self) -> u64 {
        let (r, c) = self.geom.unwrap_or((10_000, 2));
        (r * c) as u64
    }
}

struct Discard {
    bytes: u64,
    cap: usize,
    calls: u64,
}

impl Write for Discard {
    fn write(&mut self, buf: &[u8]) -> std::io::Result<usize> {
        self.calls += 1;
        if self.cap > 0 {
            if self.calls % 7 == 0 {
                return Err(std::io::ErrorKind::Interrupted.into());
            }
            let n = buf.len().min(self.cap);
            self.bytes += n as u64;
            return Ok(n);
        }
        self.bytes += buf.len() as u64;
        Ok(buf.len())
    }
    fn flush(&mut self) -> std::io::Result<()> {
        Ok(())
    }
}

/// `vf child-mem-build <config json>`: single-threaded probe.
pub fn child(args: &[String]) -> i32 {
    let cfg = match args.get(0).and_then(|s| serde_json::from_str::<Value>(s).ok()).and_then(|v| Config::from_json(&v)) {
        Some(c) => c,
        None => return 2,
    };
    let r = Recipe { kind: cfg.kind, n: cfg.n, seed: cfg.seed, fanout: cfg.fanout, keylen: cfg.keylen, values: cfg.values };
    fst::raw::verif::set_registry_geometry(cfg.geom);
    let _ = fst::raw::verif::take_evictions();
    alloc::enable();
    let base = alloc::live();
    let mut b = match fst::raw::Builder::new(Discard { bytes: 0, cap: cfg.cap as usize, calls: 0 }) {
        Ok(b) => b,
        Err(_) => return 3,
    };
    let after_new = alloc::live();
    let half = cfg.n / 2;
    let mut i = 0u64;
    let mut live_half = 0usize;
    let mut live_quarter = 0usize;
    let mut blocks_half = 0isize;
    let mut ok = true;
    let set = cfg.values == 0;
    r.for_each(|k, v| {
        if !ok {
            return;
        }
        if i == half / 2 {
            live_quarter = alloc::live();
        }
        if i == half {
            live_half = alloc::live();
            blocks_half = alloc::blocks();
            alloc::reset_peak();
        }
        let res = if set { b.add(k) } else { b.insert(k, v) };
        if res.is_err() {
            ok = false;
        }
        i += 1;
    });
    if !ok {
        return 3;
    }
    let live_end = alloc::live();
    let peak_second_half = alloc::peak();
    let bytes_before_finish = b.bytes_written();
    let fin = b.finish();
    let peak_incl_finish = alloc::peak();
    let peak_blocks_second_half = alloc::peak_blocks() - blocks_half;
    let evictions = fst::raw::verif::take_evictions();
    println!(
        "{}",
        json!({"ok": fin.is_ok(), "base": base, "after_new": after_new - base.min(after_new), "live_quarter": live_quarter.saturating_sub(base), "live_half": live_half.saturating_sub(base),
               "live_end": live_end.saturating_sub(base), "peak_second_half": peak_second_half.saturating_sub(base), "peak_incl_finish": peak_incl_finish.saturating_sub(base),
               "evictions": evictions, "bytes_emitted": bytes_before_finish, "allocs": alloc::count(), "block_growth_second_half": peak_blocks_second_half.max(0)})
    );
    0
}

pub fn run_child(cmd: &str, arg: &str) -> Result<Value, Fail> {
    let exe = std::env::current_exe().map_err(|e| Fail::new("harness-io", e.to_string()))?;
    let out = std::process::Command::new(exe).arg(cmd).arg(arg).output().map_err(|e| Fail::new("harness-io", e.to_string()))?;
    if !out.status.success() {
        return Err(Fail::new("harness-child", format!("probe child {} failed: {:?} {}", cmd, out.status, String::from_utf8_lossy(&out.stderr))));
    }
    serde_json::from_slice(&out.stdout).map_err(|e| Fail::new("harness-child", format!("probe child output not JSON: {}", e)))
}

/// A configuration passes if the heap is flat from N/2 to N. When it is not, that may still be a
/// cache which is simply not full yet at N/2 (a larger default geometry is a legitimate change),
/// so the verdict is taken at 2N, 4N, 8N and 16N as well: a cache of fixed size is full at one of
/// them and passes there, while growth that follows the number of keys fails at every scale.
pub fn check(cfg: &Config, rec: &mut Rec) -> Result<Value, Fail> {
    let mut last = None;
    for factor in [1u64, 2, 4, 8, 16] {
        let scaled = Config { n: cfg.n * factor, ..cfg.clone() };
        match check_at(&scaled, rec) {
            Ok(mut v) => {
                if factor > 1 {
                    if !rec.muted {
                        rec.class("flat_only_at_a_larger_n(cache not full at N/2)");
                    }
                    v["passed_at_n"] = json!(scaled.n);
                }
                return Ok(v);
            }
            Err(f) if f.sig == "heap-grows-with-n" || f.sig == "heap-blocks-grow-with-n" => last = Some(f),
            Err(f) => return Err(f),
        }
    }
    let mut f = last.unwrap();
    f.msg = format!("{} - and at 2x, 4x, 8x and 16x as many keys alike (the message shows the largest scale)", f.msg);
    Err(f)
}

fn check_at(cfg: &Config, rec: &mut Rec) -> Result<Value, Fail> {
    rec.eval();
    let m = run_child("child-mem-build", &serde_json::to_string(&cfg.to_json()).unwrap())?;
    let g = |k: &str| m.get(k).and_then(|x| x.as_u64()).unwrap_or(0);
    if m.get("ok").and_then(|x| x.as_bool()) != Some(true) {
        return Err(Fail::new("build-error", format!("probe build failed: {}", m)));
    }
    let (live_half, peak) = (g("live_half"), g("peak_incl_finish"));
    // the additive slack covers the slow saturation of Vec capacities in a large cache; tiny
    // hook caches saturate at once, so slow leaks (a byte per 64 keys) must show there
    let tiny = cfg.geom.map(|(r, c)| r * c <= 256).unwrap_or(false);
    let allowed = live_half + live_half / 10 + if tiny { 8 * 1024 } else { 128 * 1024 };
    if peak > allowed {
        return Err(Fail::new(
            "heap-grows-with-n",
            format!(
                "builder heap grows with the number of keys: live heap after {} keys was {} bytes, peak while inserting the next {} keys reached {} bytes (> 1.10 x + 8 KiB for caches of <= 256 cells, + 128 KiB otherwise = {}); config {}",
                cfg.n / 2,
                live_half,
                cfg.n - cfg.n / 2,
                peak,
                allowed,
                cfg.to_json()
            ),
        ));
    }
    // blocks, not bytes: in a cache of <= 256 cells every cell has its buffer long before N/2, so the
    // number of live heap blocks is flat from there on (a Vec that grows keeps its block); a leak of
    // small blocks shows here even when its bytes drown in the tolerance above
    // (larger caches: every configuration used here is saturated by N/2 as well - measured growth
    // on the pinned tree is <= 8 blocks for all of them - but they get a far wider allowance)
    if g("block_growth_second_half") > if tiny { 64 } else { 1024 } {
        return Err(Fail::new(
            "heap-blocks-grow-with-n",
            format!("builder heap grows with the number of keys: the number of live heap blocks rose by {} while inserting keys {}..{} (cache of {} cells, saturated long before); config {}", g("block_growth_second_half"), cfg.n / 2, cfg.n, cfg.cells(), cfg.to_json()),
        ));
    }
    let forced = g("evictions") > 10 * cfg.cells();
    if !rec.muted {
        rec.class(if forced { "cache_forced_to_forget(>10x cells evictions)" } else { "cache_not_saturated" });
        rec.class(if cfg.values == 0 { "set" } else { "map" });
        if cfg.cap > 0 {
            rec.class("short_write_sink");
        }
        if forced {
            rec.nontrivial(H::new().b(serde_json::to_string(&cfg.to_json()).unwrap().as_bytes()).get());
        }
    }
    let (r, c) = cfg.geom.unwrap_or((10_000, 2));
    let f = cfg.fanout.max(2) as u64;
    let apriori = (r * c) as u64 * (48 + 24 * (2 * f).max(4)) + 64 * 1024;
    Ok(json!({"config": cfg.to_json(), "measured": m, "informational_a_priori_bound": apriori}))
}

pub fn run(e: &Engine) {
    e.set_rule("cases are (N, fan-out F, key length L, set/map, cache geometry): key sequences with bounded fan-out and length and an unbounded number of distinct nodes (base-F counter prefix + hashed suffix) streamed to a discarding sink (taking every write whole, or at most 1/3/4/8 bytes per call with every 7th call interrupted) inside a single-threaded child process with a counting global allocator; live heap is sampled after N/2 keys and the peak is tracked from there to the end of finish(); violation iff, at N and at 2N, 4N, 8N and 16N alike (a cache that is merely not full yet passes at one of them), peak > 1.10 * live(N/2) + 128 KiB (+ 8 KiB only, for caches of <= 256 cells), or iff the number of live heap blocks rises by more than 64 (caches of <= 256 cells) / 1024 (larger caches) after N/2; non-trivial = the eviction hook counted more than 10x the number of cache cells (the cache was forced to forget); distinct by configuration");
    e.assume("an asymptotic claim checked at finitely many N; growth slower than 5% per doubling would pass");
    let n: u64 = e.tier.pick(1_500_000, 4_000_000);
    let mut cfgs = vec![];
    for (i, &(fanout, keylen)) in [(2u8, 28u8), (3, 24), (4, 20), (8, 16)].iter().enumerate() {
        for (j, geom) in [Some((64usize, 2usize)), Some((1000, 2)), None].into_iter().enumerate() {
            cfgs.push(Config { n, fanout, keylen, kind: 1 + ((i + j) % 2) as u8, values: if (i + j) % 2 == 0 { 0 } else { 2 }, geom, seed: crate::engine::mix(e.seed, (i * 3 + j) as u64), cap: 0 });
        }
    }
    // long keys, wide nodes, decreasing values
    cfgs.push(Config { n: n / 8, fanout: 3, keylen: 250, kind: 1, values: 3, geom: Some((64, 2)), seed: crate::engine::mix(e.seed, 60), cap: 0 });
    cfgs.push(Config { n: n / 2, fanout: 40, keylen: 12, kind: 1, values: 2, geom: Some((64, 2)), seed: crate::engine::mix(e.seed, 61), cap: 0 });
    // (no wide-node configuration under the default geometry: 20 000 cells x 40-transition buffers
    // saturate only after several million keys, so "live at N/2" would not be the plateau — a first
    // version of this check raised exactly that false alarm on the unchanged tree)
    cfgs.push(Config { n: n / 2, fanout: 40, keylen: 12, kind: 2, values: 0, geom: Some((1000, 2)), seed: crate::engine::mix(e.seed, 62), cap: 0 });
    // keys that are proper prefixes of their successors (k, k+x): leaf nodes that later gain a transition
    for (j, geom) in [Some((64usize, 2usize)), None].into_iter().enumerate() {
        cfgs.push(Config { n: n / 2, fanout: 4, keylen: 20, kind: 3, values: if j == 0 { 0 } else { 2 }, geom, seed: crate::engine::mix(e.seed, 50 + j as u64), cap: 0 });
    }
    // sinks that take only a few bytes per call (and interrupt now and then): what the sink has
    // not taken yet must not pile up in the builder
    for (j, &(cap, values, kind)) in [(1u8, 0u8, 1u8), (4, 0, 2), (3, 2, 1), (8, 2, 3)].iter().enumerate() {
        cfgs.push(Config { n: n / 2, fanout: 4, keylen: 20, kind, values, geom: Some((64, 2)), seed: crate::engine::mix(e.seed, 70 + j as u64), cap });
    }
    if e.tier == crate::engine::Tier::Thorough {
        for (i, geom) in [Some((64usize, 2usize)), None, Some((10_000, 4))].into_iter().enumerate() {
            cfgs.push(Config { n: 10_000_000, fanout: 4, keylen: 24, kind: 1, values: (i % 2) as u8 * 2, geom, seed: crate::engine::mix(e.seed, 100 + i as u64), cap: 0 });
        }
        let extra: Vec<Config> = cfgs.iter().take(12).map(|c| Config { values: if c.values == 0 { 1 } else { 0 }, seed: c.seed ^ 1, ..c.clone() }).collect();
        cfgs.extend(extra);
    }
    let results: std::sync::Mutex<Vec<Value>> = std::sync::Mutex::new(vec![]);
    e.run_list("probe-children", &cfgs, |c| c.to_json(), |c, rec| {
        let v = check(c, rec)?;
        if rec.wants_sample() {
            rec.sample(v.clone());
        }
        results.lock().unwrap().push(v);
        Ok(())
    });
    e.extra("measurements", Value::Array(results.into_inner().unwrap()));
    e.require_class("cache_forced_to_forget(>10x cells evictions)", 2);
}

pub fn replay(_sub: &str, case: &Value) -> Option<CheckResult> {
    let mut rec = Rec::new(0);
    Some(crate::engine::guarded(|| check(&Config::from_json(case).ok_or_else(bad)?, &mut rec).map(|_| ())))
}
