//! C15 Construction is deterministic and independent of the API path.

use fst::{IntoStreamer, Streamer};
use proptest::prelude::*;
use serde_json::{json, Value};

use crate::engine::{fnv, CheckResult, Engine, Fail, Rec, VERIF_DIR};
use crate::gen::{self, FstInput, Front, Pairs};
use crate::props::c01::bad;
use crate::sinks::ScriptSink;

#[derive(Clone, Debug)]
pub struct Case {
    pub pairs: Pairs,
    pub set: bool,
    pub ty: u64,
    pub geom: Option<(usize, usize)>,
    pub parts: Vec<u8>, // partition label per key (2..5 part-sets)
    pub threads: bool,
}

impl Case {
    fn input(&self, front: Front) -> FstInput {
        let mut i = FstInput::new(front, self.geom, self.pairs.clone());
        if front.takes_type() {
            i.ty = self.ty;
        }
        i
    }
    fn to_json(&self) -> Value {
        json!({"input": self.input(if self.set { Front::RawAdd } else { Front::RawInsert }).to_json(), "set": self.set, "type": self.ty.to_string(), "parts": self.parts, "threads": self.threads})
    }
    fn from_json(v: &Value) -> Option<Case> {
        let i = FstInput::from_json(v.get("input")?)?;
        Some(Case {
            pairs: i.pairs,
            set: v.get("set")?.as_bool()?,
            ty: v.get("type")?.as_str()?.parse().ok()?,
            geom: i.geom,
            parts: v.get("parts")?.as_array()?.iter().map(|x| x.as_u64().map(|y| y as u8)).collect::<Option<Vec<_>>>()?,
            threads: v.get("threads")?.as_bool()?,
        })
    }
}

fn differ(what: &str, a: &[u8], b: &[u8], c: &Case) -> Fail {
    let at = a.iter().zip(b.iter()).position(|(x, y)| x != y).unwrap_or(a.len().min(b.len()));
    Fail::new(
        "bytes-differ",
        format!("{} produced different bytes than the single-insert raw builder for the same sequence ({} vs {} bytes, first difference at offset {}); geometry {:?}; keys {}", what, b.len(), a.len(), at, c.geom, crate::oracle::keys_show(&c.pairs)),
    )
}

fn with_geom<T>(g: Option<(usize, usize)>, f: impl FnOnce() -> T) -> T {
    fst::raw::verif::set_registry_geometry(g);
    let r = f();
    fst::raw::verif::set_registry_geometry(None);
    r
}

pub fn check(c: &Case, rec: &mut Rec) -> CheckResult {
    rec.eval();
    let pairs: Pairs = if c.set { c.pairs.iter().map(|p| (p.0.clone(), 0)).collect() } else { c.pairs.clone() };
    let c = &Case { pairs, ..c.clone() };
    let base_front = if c.set { Front::RawAdd } else { Front::RawInsert };
    let reference = gen::build(&c.input(base_front)).map_err(|e| Fail::new("build-error", e))?.bytes;
    let mut paths = 1;
    // every front end that accepts this kind of content; front ends without a type tag are compared for type 0
    let fronts: &[Front] = if c.set { &gen::SET_FRONTS } else { &gen::MAP_FRONTS };
    let ref0 = if c.ty == 0 { reference.clone() } else { gen::build(&FstInput::new(base_front, c.geom, c.pairs.clone())).map_err(|e| Fail::new("build-error", e))?.bytes };
    for &f in fronts {
        let got = gen::build(&c.input(f)).map_err(|e| Fail::new("build-error", e))?.bytes;
        let want = if f.takes_type() { &reference } else { &ref0 };
        if &got != want {
            return Err(differ(f.name(), want, &got, c));
        }
        paths += 1;
    }
    // sets built with the map-flavoured insert(key, 0) are the same bytes
    if c.set {
        let got = gen::build(&FstInput::new(Front::RawInsert, c.geom, c.pairs.clone())).map_err(|e| Fail::new("build-error", e))?.bytes;
        if got != ref0 {
            return Err(differ("raw insert(key, 0)", &ref0, &got, c));
        }
        paths += 1;
    }
    // repeated build
    let again = gen::build(&c.input(base_front)).map_err(|e| Fail::new("build-error", e))?.bytes;
    if again != reference {
        return Err(differ("a repeated build in the same thread", &reference, &again, c));
    }
    // extend_stream from an opened FST, from a range stream, and streaming a union of part-sets
    let fe = |e: fst::Error| Fail::new("build-error", format!("{:?}", e));
    let streamed: Vec<(&str, Vec<u8>)> = with_geom(c.geom, || -> Result<Vec<(&str, Vec<u8>)>, Fail> {
        let mut out = vec![];
        if c.set {
            let set = fst::Set::new(ref0.clone()).map_err(fe)?;
            let mut b = fst::SetBuilder::memory();
            b.extend_stream(&set).map_err(fe)?;
            out.push(("SetBuilder.extend_stream(&Set)", b.into_inner().map_err(fe)?));
            let mut b = fst::SetBuilder::new(Vec::new()).map_err(fe)?;
            b.extend_stream(set.range().ge("")).map_err(fe)?;
            out.push(("SetBuilder.extend_stream(range)", b.into_inner().map_err(fe)?));
            // the documented merge recipe: union of part-sets streamed into a builder
            let nparts = c.parts.iter().copied().max().map(|m| m as usize + 1).unwrap_or(1).max(2);
            let mut part_sets = vec![];
            for p in 0..nparts {
                let keys: Vec<&Vec<u8>> = c.pairs.iter().enumerate().filter(|(i, _)| c.parts.get(*i).copied().unwrap_or(0) as usize % nparts == p).map(|(_, kv)| &kv.0).collect();
                part_sets.push(fst::Set::from_iter(keys).map_err(fe)?);
            }
            let mut b = fst::SetBuilder::memory();
            b.extend_stream(part_sets.iter().collect::<fst::set::OpBuilder>().union()).map_err(fe)?;
            out.push(("SetBuilder.extend_stream(union of part-sets)", b.into_inner().map_err(fe)?));
        } else {
            let map = fst::Map::new(ref0.clone()).map_err(fe)?;
            let mut b = fst::MapBuilder::memory();
            b.extend_stream(&map).map_err(fe)?;
            out.push(("MapBuilder.extend_stream(&Map)", b.into_inner().map_err(fe)?));
            let mut b = fst::MapBuilder::new(Vec::new()).map_err(fe)?;
            b.extend_stream(map.range().ge("")).map_err(fe)?;
            out.push(("MapBuilder.extend_stream(range)", b.into_inner().map_err(fe)?));
            let raw = fst::raw::Fst::new(ref0.clone()).map_err(fe)?;
            let mut b = fst::raw::Builder::memory();
            b.extend_stream(&raw).map_err(fe)?;
            out.push(("raw extend_stream(&Fst)", b.into_inner().map_err(fe)?));
            // union of disjoint part-maps, inserted key by key
            let nparts = c.parts.iter().copied().max().map(|m| m as usize + 1).unwrap_or(1).max(2);
            let mut part_maps = vec![];
            for p in 0..nparts {
                let kvs: Vec<(&Vec<u8>, u64)> = c.pairs.iter().enumerate().filter(|(i, _)| c.parts.get(*i).copied().unwrap_or(0) as usize % nparts == p).map(|(_, kv)| (&kv.0, kv.1)).collect();
                part_maps.push(fst::Map::from_iter(kvs).map_err(fe)?);
            }
            let mut u = part_maps.iter().collect::<fst::map::OpBuilder>().union();
            let mut b = fst::MapBuilder::memory();
            while let Some((k, ivs)) = u.next() {
                b.insert(k, ivs[0].value).map_err(fe)?;
            }
            out.push(("MapBuilder fed by a union of part-maps", b.into_inner().map_err(fe)?));
        }
        // caller-side variations that must not matter: buffer capacity, inspecting the
        // builder between inserts, iterators without a size hint, a fresh thread
        let vary = c.pairs.len() > 100 || fnv(&ref0) % 3 == 0;
        for cap in if vary { vec![0usize, 7, 100_000] } else { vec![] } {
            let mut b = fst::raw::Builder::new(Vec::with_capacity(cap)).map_err(fe)?;
            for (i, (k, v)) in c.pairs.iter().enumerate() {
                if c.set { b.add(k) } else { b.insert(k, *v) }.map_err(fe)?;
                if i % 3 == 0 {
                    let _ = b.bytes_written();
                    let _ = b.get_ref().len();
                }
            }
            out.push(("raw builder over Vec::with_capacity(n), inspected between inserts", b.into_inner().map_err(fe)?));
        }
        if !vary {
        } else if c.set {
            let s = fst::Set::from_iter(c.pairs.iter().map(|p| &p.0).filter(|_| true)).map_err(fe)?;
            out.push(("Set::from_iter over an iterator without an exact size hint", s.into_fst().into_inner()));
        } else {
            let m = fst::Map::from_iter(c.pairs.iter().map(|p| (&p.0, p.1)).filter(|_| true)).map_err(fe)?;
            out.push(("Map::from_iter over an iterator without an exact size hint", m.into_fst().into_inner()));
        }
        if vary {
            let (pairs, set, geom) = (c.pairs.clone(), c.set, c.geom);
            let bytes = std::thread::spawn(move || {
                fst::raw::verif::set_registry_geometry(geom);
                gen::build_plain(&pairs, set)
            })
            .join()
            .map_err(|_| Fail::new("panic", "builder thread panicked".to_string()))?
            .map_err(|e| Fail::new("build-error", e))?;
            out.push(("the first builder of a freshly spawned thread", bytes));
        }
        // a sink that accepts a few bytes at a time
        let sink = ScriptSink::new(vec![], 3);
        let mut b = fst::raw::Builder::new(sink).map_err(fe)?;
        for (k, v) in &c.pairs {
            if c.set { b.add(k) } else { b.insert(k, *v) }.map_err(fe)?;
        }
        out.push(("raw builder over a 3-bytes-per-call sink", b.into_inner().map_err(fe)?.data));
        Ok(out)
    })?;
    for (name, got) in &streamed {
        if got != &ref0 {
            return Err(differ(name, &ref0, got, c));
        }
        paths += 1;
    }
    // parallel threads
    if c.threads {
        let results: Vec<Vec<u8>> = std::thread::scope(|s| {
            let hs: Vec<_> = (0..16)
                .map(|i| {
                    let inp = c.input(if i % 2 == 0 { base_front } else if c.set { Front::SetBuilder } else { Front::MapBuilder });
                    s.spawn(move || gen::build(&inp).map(|b| b.bytes).unwrap_or_default())
                })
                .collect();
            hs.into_iter().map(|h| h.join().unwrap_or_default()).collect()
        });
        for (i, r) in results.iter().enumerate() {
            let want = if i % 2 == 0 { &reference } else { &ref0 };
            if r != want {
                return Err(differ(&format!("thread {} of 16 building concurrently", i), want, r, c));
            }
        }
        rec.class("built_in_16_threads");
    }
    if !rec.muted {
        let nodes = crate::refcodec::decode(&reference, 0).map(|d| d.nodes.len()).unwrap_or(0);
        if nodes >= 50 {
            rec.class("at_least_50_nodes");
        }
        if nodes >= 50 && paths >= 3 {
            rec.nontrivial(c.input(base_front).hash());
            if rec.wants_sample() {
                rec.sample(json!({"input": c.input(base_front).sample(), "paths_compared": paths, "nodes": nodes}));
            }
        }
        rec.class_n("entry_points_compared", paths as u64);
    }
    Ok(())
}

/// `vf child-digest <file> <front>`: rebuild a case in a fresh process.
pub fn child_digest(args: &[String]) -> i32 {
    let doc: Value = match std::fs::read_to_string(&args[0]).ok().and_then(|s| serde_json::from_str(&s).ok()) {
        Some(d) => d,
        None => return 2,
    };
    let mut input = match FstInput::from_json(&doc) {
        Some(i) => i,
        None => return 2,
    };
    if let Some(f) = args.get(1).and_then(|n| Front::from_name(n)) {
        input = FstInput { front: f, ..input };
    }
    if let Some(n) = args.get(2).and_then(|n| n.parse::<usize>().ok()) {
        // a process that cannot allocate large blocks: building may abort, but
        // must not silently produce different bytes
        crate::alloc::refuse_allocations_of(n);
    }
    match gen::build(&input) {
        Ok(b) => {
            println!("{:016x} {}", fnv(&b.bytes), b.bytes.len());
            0
        }
        Err(_) => 3,
    }
}

/// Case number `i` of the cross-process comparison (regenerated from the seed).
fn check_cross(i: &u64, seed: u64, rec: &mut Rec) -> CheckResult {
    let exe = std::env::current_exe().map_err(|e| Fail::new("harness-io", e.to_string()))?;
    let dir = format!("{}/work/c15", crate::engine::out_dir());
    let _ = std::fs::create_dir_all(&dir);
    rec.eval();
    let r = gen::Recipe { kind: (1 + *i % 2) as u8, n: 300 + (crate::engine::mix(seed, *i) % 3000), seed: crate::engine::mix(seed ^ 0xc15, *i), fanout: 2 + (*i % 5) as u8, keylen: 8, values: (*i % 4) as u8 };
    let set = r.values == 0;
    let geom = [None, Some((7usize, 2usize)), Some((64, 2)), Some((2, 1))][(*i % 4) as usize];
    let input = FstInput::new(if set { Front::RawAdd } else { Front::RawInsert }, geom, r.pairs());
    let here = gen::build(&input).map_err(|e| Fail::new("build-error", e))?.bytes;
    let want = format!("{:016x} {}", fnv(&here), here.len());
    let path = format!("{}/case-{}-{}.json", dir, std::process::id(), i);
    std::fs::write(&path, serde_json::to_string(&input.to_json()).unwrap()).map_err(|e| Fail::new("harness-io", e.to_string()))?;
    let fronts: &[Front] = if set { &[Front::RawAdd, Front::SetFromIter, Front::SetExtendStream] } else { &[Front::RawInsert, Front::MapFromIter, Front::MapExtendStream] };
    for f in fronts {
        let out = std::process::Command::new(&exe).arg("child-digest").arg(&path).arg(f.name()).output().map_err(|e| Fail::new("harness-io", e.to_string()))?;
        let got = String::from_utf8_lossy(&out.stdout).trim().to_string();
        if !out.status.success() {
            let _ = std::fs::remove_file(&path);
            return Err(Fail::new("harness-child", format!("child process failed with {:?}", out.status)));
        }
        if got != want {
            return Err(Fail::new("bytes-differ-across-processes", format!("a child process building the same sequence through {} produced digest/len '{}', this process '{}' (recipe {}, geometry {:?})", f.name(), got, want, r.to_json(), geom)));
        }
    }
    // the same build in a process that is refused every allocation >= 256 KiB
    // (only meaningful under the default geometry): it may die, it must not
    // report a different file
    if geom.is_none() {
        let out = std::process::Command::new(&exe).arg("child-digest").arg(&path).arg(fronts[0].name()).arg("262144").output().map_err(|e| Fail::new("harness-io", e.to_string()))?;
        let got = String::from_utf8_lossy(&out.stdout).trim().to_string();
        if out.status.success() && !got.is_empty() && got != want {
            let _ = std::fs::remove_file(&path);
            return Err(Fail::new("bytes-differ-across-processes", format!("a child process that is refused allocations >= 256 KiB produced digest/len '{}' for the same sequence, this process '{}' (recipe {})", got, want, r.to_json())));
        }
        rec.class(if out.status.success() { "alloc_limited_child_same_bytes" } else { "alloc_limited_child_died(accepted)" });
    }
    let _ = std::fs::remove_file(&path);
    rec.nontrivial(crate::engine::mix(input.hash(), 0xc15));
    rec.class("cross_process_comparison");
    Ok(())
}

fn cross_process(e: &Engine, n: usize) {
    // regenerate cases deterministically from the seed, build in-process and
    // in child processes through different front ends
    let exe = std::env::current_exe().expect("current_exe");
    let dir = format!("{}/work/c15", crate::engine::out_dir());
    let _ = std::fs::create_dir_all(&dir);
    let items: Vec<u64> = (0..n as u64).collect();
    let seed = e.seed;
    e.run_list("child-processes", &items, |i| json!({"cross_process_case": i, "seed": seed.to_string()}), |i, rec| check_cross(i, seed, rec));
}

/// Case number `i` of the larger sequences (regenerated from the seed).
fn check_larger(i: &u64, seed: u64, rec: &mut Rec) -> CheckResult {
    // one sequence beyond 10^5 keys: bulk entry points see large exact size hints
    let n = if *i == 6 { 130_000 } else { 20_000 + *i * 1000 };
    let values = if *i == 6 { 1 } else { (*i % 3) as u8 }; // the long one is a map (bulk map paths)
    let r = gen::Recipe { kind: 1, n, seed: crate::engine::mix(seed, *i), fanout: 4, keylen: 10, values };
    let c = Case { pairs: r.pairs(), set: r.values == 0, ty: 0, geom: if i % 2 == 0 { None } else { Some((64, 2)) }, parts: vec![0, 1, 2, 1, 0, 3], threads: true };
    check(&c, rec)
}

/// Bytes must not depend on what the thread did before: after a build that died of an I/O error
/// at write call i (for every i), and after builds of other sequences, the same sequence built
/// again on this thread gives the same bytes as before.
fn check_history(pairs: &gen::Pairs, set: &bool, rec: &mut Rec) -> CheckResult {
    use crate::sinks::{FaultKind, FaultSink};
    let build_mem = |ps: &gen::Pairs| -> Result<Vec<u8>, Fail> {
        let mut b = fst::raw::Builder::new(vec![]).map_err(|e| Fail::new("build-error", format!("{:?}", e)))?;
        for (k, v) in ps {
            let r = if *set { b.add(k) } else { b.insert(k, *v) };
            r.map_err(|e| Fail::new("build-error", format!("{:?}", e)))?;
        }
        b.into_inner().map_err(|e| Fail::new("build-error", format!("{:?}", e)))
    };
    let reference = build_mem(pairs)?;
    // how many write calls does a fault-free build make?
    let (probe, st) = FaultSink::new(None, false, FaultKind::Other, usize::MAX);
    {
        let mut b = fst::raw::Builder::new(probe).map_err(|e| Fail::new("build-error", format!("{:?}", e)))?;
        for (k, v) in pairs {
            (if *set { b.add(k) } else { b.insert(k, *v) }).map_err(|e| Fail::new("build-error", format!("{:?}", e)))?;
        }
        b.finish().map_err(|e| Fail::new("build-error", format!("{:?}", e)))?;
    }
    let w = st.borrow().writes;
    for i in 0..w.min(60) {
        rec.eval();
        let (sink, _st) = FaultSink::new(Some(i), false, if i % 2 == 0 { FaultKind::Other } else { FaultKind::OkZero }, if i % 3 == 0 { 3 } else { usize::MAX });
        // the doomed build: same keys, errors ignored
        // (a builder that has returned an error is dropped, not used further)
        if let Ok(mut b) = fst::raw::Builder::new(sink) {
            let mut ok = true;
            for (k, v) in pairs {
                if (if *set { b.add(k) } else { b.insert(k, *v) }).is_err() {
                    ok = false;
                    break;
                }
            }
            if ok {
                let _ = b.finish();
            }
        }
        let again = build_mem(pairs)?;
        vensure!(again == reference, "bytes-depend-on-history", "the same sequence built on the same thread right after a build that died of an I/O error at write call {} gives {} bytes, before it gave {} (first difference at offset {}); keys {}", i, again.len(), reference.len(), again.iter().zip(reference.iter()).position(|(a, b)| a != b).unwrap_or(again.len().min(reference.len())), crate::oracle::keys_show(pairs));
    }
    if !rec.muted {
        rec.class("rebuilt_after_failed_builds");
        rec.nontrivial(crate::engine::H::new().pairs(pairs).u(*set as u64).u(0x415).get());
    }
    Ok(())
}

pub fn run(e: &Engine) {
    e.set_rule("cases are (type, key/value sequence, cache geometry incl. evicting hook geometries); each is built through every entry point that accepts it (raw insert/add, MapBuilder, SetBuilder, from_iter*, extend_iter, extend_stream from user streams, from opened FSTs, from range streams and from a union of 2..5 part-sets, a 3-bytes-per-call sink), twice in the same thread, optionally in 16 threads at once, in child processes, and again on the same thread right after builds that died of an I/O error at each write call; oracle = byte equality; non-trivial = sequence with >= 50 emitted nodes compared across >= 3 entry points, or any cross-process comparison; distinct by input hash");
    e.assume("other platforms / endianness are out of reach in this sandbox");
    e.run_enum("u3-subsets-all-entry-points", 32768 * 2, |idx, rec| {
        let u3 = gen::u3();
        let mask = idx & 0x7fff;
        let set = idx >> 15 == 0;
        let keys = gen::subset(&u3, mask);
        let c = Case { pairs: gen::enum_values(if set { 0 } else { 3 }, &keys), set, ty: 0, geom: [None, Some((1, 1)), Some((2, 2))][(mask % 3) as usize], parts: (0..15).map(|i| ((mask >> i) as u8 ^ i as u8) % 3).collect(), threads: false };
        crate::engine::guarded(|| check(&c, rec)).map_err(|f| (c.to_json(), f))
    });
    e.run_prop(
        "random-sequences-all-entry-points",
        e.tier.pick(40_000, 600_000),
        || {
            (gen::small_pairs(120, 200), any::<bool>(), gen::type_strategy(), gen::geom_strategy(), proptest::collection::vec(0u8..5, 1..40), prop::bool::weighted(0.02))
                .prop_map(|(pairs, set, ty, geom, parts, threads)| Case { pairs, set, ty, geom, parts, threads })
        },
        |c| c.to_json(),
        check,
    );
    let items: Vec<u64> = (0..e.tier.pick(7u64, 40)).collect();
    let seed = e.seed;
    e.run_list("larger-sequences-threads", &items, |i| json!({"recipe_case": i, "seed": seed.to_string()}), |i, rec| check_larger(i, seed, rec));
    e.run_prop(
        "rebuild-after-failed-builds-on-the-same-thread",
        e.tier.pick(400, 8_000),
        || (gen::small_pairs(16, 40), any::<bool>()).prop_map(|(pairs, set)| (if set { pairs.into_iter().map(|p| (p.0, 0)).collect() } else { pairs }, set)),
        |(pairs, set)| json!({"history_pairs": crate::engine::pairs_json(pairs), "set": set}),
        |(pairs, set), rec| check_history(pairs, set, rec),
    );
    cross_process(e, e.tier.pick(24, 200));
    for cls in ["at_least_50_nodes", "built_in_16_threads", "cross_process_comparison", "rebuilt_after_failed_builds"] {
        e.require_class(cls, 1);
    }
}

pub fn replay(_sub: &str, case: &Value) -> Option<CheckResult> {
    let mut rec = Rec::new(0);
    if let Some(ps) = case.get("history_pairs") {
        return Some(crate::engine::guarded(|| {
            let pairs = crate::engine::pairs_from_json(ps).ok_or_else(bad)?;
            let set = case.get("set").and_then(|x| x.as_bool()).ok_or_else(bad)?;
            check_history(&pairs, &set, &mut rec)
        }));
    }
    let seed = || case.get("seed").and_then(|x| x.as_str()).and_then(|x| x.parse::<u64>().ok()).ok_or_else(bad);
    if let Some(i) = case.get("cross_process_case").and_then(|x| x.as_u64()) {
        return Some(crate::engine::guarded(|| check_cross(&i, seed()?, &mut rec)));
    }
    if let Some(i) = case.get("recipe_case").and_then(|x| x.as_u64()) {
        return Some(crate::engine::guarded(|| check_larger(&i, seed()?, &mut rec)));
    }
    Some(crate::engine::guarded(|| check(&Case::from_json(case).ok_or_else(bad)?, &mut rec)))
}
