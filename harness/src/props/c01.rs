//! C01 Build-then-enumerate round trip is exact.

use fst::{IntoStreamer, Streamer};
use proptest::prelude::*;
use serde_json::{json, Value};

use crate::engine::{CheckResult, Engine, Rec, Tier, H};
use crate::gen::{self, FstInput, Front, Pairs, Recipe};

pub fn keys_of(p: &Pairs) -> Vec<Vec<u8>> {
    p.iter().map(|x| x.0.clone()).collect()
}

fn short(p: &Pairs) -> String {
    let s: Vec<String> = p
        .iter()
        .take(20)
        .map(|(k, v)| format!("{}={}", crate::engine::show(&k[..k.len().min(40)]), v))
        .collect();
    format!("[{}{}]", s.join(", "), if p.len() > 20 { ", …" } else { "" })
}

/// Non-triviality rule of C01 and a few class labels.
pub fn classify(input: &FstInput, evictions: u64, rec: &mut Rec) -> bool {
    let ps = &input.pairs;
    let mut shared_prefix = false;
    let mut shared_suffix = false;
    let mut nonzero = false;
    let mut first_bytes = std::collections::BTreeSet::new();
    let mut last_bytes = std::collections::BTreeSet::new();
    let mut maxlen = 0;
    for (i, (k, v)) in ps.iter().enumerate() {
        if *v != 0 {
            nonzero = true;
        }
        maxlen = maxlen.max(k.len());
        if let Some(&b) = k.first() {
            if !first_bytes.insert(b) {
                shared_prefix = true;
            }
        }
        if let Some(&b) = k.last() {
            if !last_bytes.insert(b) {
                shared_suffix = true;
            }
        }
        let _ = i;
    }
    let fan = first_bytes.len();
    if rec.muted {
        return false;
    }
    if ps.first().map(|p| p.0.is_empty()).unwrap_or(false) {
        rec.class("has_empty_key");
    }
    if ps.is_empty() {
        rec.class("empty_fst");
    }
    if evictions > 0 {
        rec.class("cache_evicted");
    }
    if input.geom.is_some() {
        rec.class("hook_geometry");
    }
    rec.class(&format!("front:{}", input.front.name()));
    match maxfan(ps) {
        0..=1 => {}
        2..=32 => rec.class("fanout_2..32"),
        33..=63 => rec.class("fanout_33..63"),
        64..=255 => rec.class("fanout_64..255"),
        _ => rec.class("fanout_256"),
    }
    if maxlen > 255 {
        rec.class("key_longer_255");
    }
    if ps.iter().any(|p| p.1 == u64::MAX) {
        rec.class("value_u64_max");
    }
    if ps.iter().any(|p| p.1 > u32::MAX as u64) {
        rec.class("value_over_2^32");
    }
    ps.len() >= 2 && (shared_prefix || shared_suffix || nonzero || fan > 1)
}

/// Largest fan-out of any trie node of the (sorted) keys.
pub fn maxfan(ps: &Pairs) -> usize {
    let mut counts: std::collections::HashMap<&[u8], usize> =
        std::collections::HashMap::new();
    let mut prev: Option<&[u8]> = None;
    let mut best = 0;
    for (k, _) in ps {
        let lcp = prev
            .map(|p| p.iter().zip(k.iter()).take_while(|(a, b)| a == b).count())
            .unwrap_or(0);
        let from = if prev.is_some() { lcp } else { 0 };
        for d in from..k.len() {
            let c = counts.entry(&k[..d]).or_insert(0);
            *c += 1;
            best = best.max(*c);
        }
        prev = Some(k);
    }
    best
}

/// The oracle: every enumeration path yields exactly the model.
pub fn check_bytes(bytes: &[u8], input: &FstInput, full: bool) -> CheckResult {
    let want = &input.pairs;
    let f = match fst::raw::Fst::new(bytes) {
        Ok(f) => f,
        Err(e) => vfail!("open-failed", "built bytes do not open: {:?} (input {})", e, short(want)),
    };
    vensure!(f.len() == want.len(), "len", "raw len()={} but {} distinct keys were inserted; input {}", f.len(), want.len(), short(want));
    vensure!(f.is_empty() == want.is_empty(), "is_empty", "is_empty()={} with {} keys", f.is_empty(), want.len());
    let got = gen::collect_stream(f.stream());
    vensure!(&got == want, "stream-mismatch", "raw stream yields {} but inserted {}", short(&got), short(want));
    vensure!(f.fst_type() == input.ty, "type", "fst_type()={} but builder was given {}", f.fst_type(), input.ty);
    if !full {
        return Ok(());
    }
    let got = gen::collect_stream(&f);
    vensure!(&got == want, "stream-mismatch", "&Fst into_stream yields {} but inserted {}", short(&got), short(want));
    let got = f.stream().into_byte_vec();
    vensure!(&got == want, "stream-mismatch", "into_byte_vec yields {} but inserted {}", short(&got), short(want));
    let gotk = f.stream().into_byte_keys();
    vensure!(gotk == keys_of(want), "stream-mismatch", "into_byte_keys mismatch for {}", short(want));
    let gotv = f.stream().into_values();
    vensure!(gotv == want.iter().map(|x| x.1).collect::<Vec<_>>(), "stream-mismatch", "into_values yields {:?} for {}", gotv, short(want));

    let m = match fst::Map::new(bytes) {
        Ok(m) => m,
        Err(e) => vfail!("open-failed", "Map::new failed: {:?}", e),
    };
    vensure!(m.len() == want.len() && m.is_empty() == want.is_empty(), "len", "Map len()={} is_empty()={} for {} keys", m.len(), m.is_empty(), want.len());
    let mut got: Pairs = vec![];
    let mut s = m.stream();
    while let Some((k, v)) = s.next() {
        got.push((k.to_vec(), v));
    }
    vensure!(&got == want, "stream-mismatch", "Map::stream yields {} but inserted {}", short(&got), short(want));
    let mut got: Pairs = vec![];
    let mut s = (&m).into_stream();
    while let Some((k, v)) = s.next() {
        got.push((k.to_vec(), v));
    }
    vensure!(&got == want, "stream-mismatch", "&Map into_stream yields {} but inserted {}", short(&got), short(want));
    let mut gotk = vec![];
    let mut s = m.keys();
    while let Some(k) = s.next() {
        gotk.push(k.to_vec());
    }
    vensure!(gotk == keys_of(want), "stream-mismatch", "Map::keys mismatch for {}", short(want));
    let mut gotv = vec![];
    let mut s = m.values();
    while let Some(v) = s.next() {
        gotv.push(v);
    }
    vensure!(gotv == want.iter().map(|x| x.1).collect::<Vec<_>>(), "stream-mismatch", "Map::values yields {:?} for {}", gotv, short(want));
    let got = m.stream().into_byte_vec();
    vensure!(&got == want, "stream-mismatch", "Map into_byte_vec mismatch for {}", short(want));

    let st = match fst::Set::new(bytes) {
        Ok(s) => s,
        Err(e) => vfail!("open-failed", "Set::new failed: {:?}", e),
    };
    vensure!(st.len() == want.len() && st.is_empty() == want.is_empty(), "len", "Set len()={} for {} keys", st.len(), want.len());
    let mut gotk = vec![];
    let mut s = st.stream();
    while let Some(k) = s.next() {
        gotk.push(k.to_vec());
    }
    vensure!(gotk == keys_of(want), "stream-mismatch", "Set::stream mismatch for {}", short(want));
    let gotk = st.stream().into_bytes();
    vensure!(gotk == keys_of(want), "stream-mismatch", "Set into_bytes mismatch for {}", short(want));
    // the UTF-8 flavoured helpers, when every key is valid UTF-8
    if want.iter().all(|p| std::str::from_utf8(&p.0).is_ok()) {
        let ws: Vec<(String, u64)> = want.iter().map(|p| (String::from_utf8(p.0.clone()).unwrap(), p.1)).collect();
        match m.stream().into_str_vec() {
            Ok(g) => vensure!(g == ws, "stream-mismatch", "Map into_str_vec mismatch for {}", short(want)),
            Err(e) => vfail!("stream-mismatch", "into_str_vec failed on valid UTF-8 keys: {:?}", e),
        }
        match m.stream().into_str_keys() {
            Ok(g) => vensure!(g == ws.iter().map(|x| x.0.clone()).collect::<Vec<_>>(), "stream-mismatch", "Map into_str_keys mismatch for {}", short(want)),
            Err(e) => vfail!("stream-mismatch", "into_str_keys failed on valid UTF-8 keys: {:?}", e),
        }
        match st.stream().into_strs() {
            Ok(g) => vensure!(g == ws.iter().map(|x| x.0.clone()).collect::<Vec<_>>(), "stream-mismatch", "Set into_strs mismatch for {}", short(want)),
            Err(e) => vfail!("stream-mismatch", "into_strs failed on valid UTF-8 keys: {:?}", e),
        }
    }
    // when some key is not UTF-8 the string-flavoured collectors cannot deliver the content; what
    // they may not do is report success with part of it
    if want.iter().any(|p| std::str::from_utf8(&p.0).is_err()) {
        let n = want.len();
        vensure!(!matches!(m.stream().into_str_vec(), Ok(ref v) if v.len() != n), "stream-mismatch", "Map into_str_vec returned Ok with fewer items than the map holds (a key is not UTF-8); input {}", short(want));
        vensure!(!matches!(m.stream().into_str_keys(), Ok(ref v) if v.len() != n), "stream-mismatch", "Map into_str_keys returned Ok with fewer items than the map holds (a key is not UTF-8); input {}", short(want));
        vensure!(!matches!(st.stream().into_strs(), Ok(ref v) if v.len() != n), "stream-mismatch", "Set into_strs returned Ok with fewer items than the set holds (a key is not UTF-8); input {}", short(want));
        vensure!(!matches!(f.stream().into_str_vec(), Ok(ref v) if v.len() != n), "stream-mismatch", "raw into_str_vec returned Ok with fewer items than the fst holds (a key is not UTF-8); input {}", short(want));
        vensure!(!matches!(f.stream().into_str_keys(), Ok(ref v) if v.len() != n), "stream-mismatch", "raw into_str_keys returned Ok with fewer items than the fst holds (a key is not UTF-8); input {}", short(want));
    }
    // remaining collectors and conversions of the wrapper layer
    vensure!(m.stream().into_byte_keys() == keys_of(want), "stream-mismatch", "Map into_byte_keys mismatch for {}", short(want));
    vensure!(m.stream().into_values() == want.iter().map(|x| x.1).collect::<Vec<_>>(), "stream-mismatch", "Map into_values mismatch for {}", short(want));
    let mut gotk = vec![];
    let mut s = (&st).into_stream();
    while let Some(k) = s.next() {
        gotk.push(k.to_vec());
    }
    vensure!(gotk == keys_of(want), "stream-mismatch", "&Set into_stream mismatch for {}", short(want));
    {
        let m2: fst::Map<&[u8]> = fst::Map::from(fst::raw::Fst::new(bytes).unwrap());
        vensure!(&m2.stream().into_byte_vec() == want && m2.len() == want.len(), "stream-mismatch", "Map::from(Fst) streams something else than the Fst; input {}", short(want));
        let s2: fst::Set<&[u8]> = fst::Set::from(fst::raw::Fst::new(bytes).unwrap());
        vensure!(s2.stream().into_bytes() == keys_of(want) && s2.len() == want.len(), "stream-mismatch", "Set::from(Fst) streams something else than the Fst; input {}", short(want));
        let via: &fst::raw::Fst<&[u8]> = m.as_ref();
        vensure!(&gen::collect_stream(via.stream()) == want, "stream-mismatch", "Map::as_ref::<Fst>() streams something else; input {}", short(want));
        let via: &fst::raw::Fst<&[u8]> = st.as_ref();
        vensure!(&gen::collect_stream(via.stream()) == want, "stream-mismatch", "Set::as_ref::<Fst>() streams something else; input {}", short(want));
        vensure!(&gen::collect_stream(m.as_fst().stream()) == want && &gen::collect_stream(st.as_fst().stream()) == want, "stream-mismatch", "as_fst() streams something else; input {}", short(want));
        let back = fst::Map::new(bytes).unwrap().into_fst();
        vensure!(back.as_bytes() == bytes, "stream-mismatch", "Map::into_fst changes the bytes");
    }
    if want.iter().all(|p| std::str::from_utf8(&p.0).is_ok()) {
        let ws: Vec<(String, u64)> = want.iter().map(|p| (String::from_utf8(p.0.clone()).unwrap(), p.1)).collect();
        match f.stream().into_str_vec() {
            Ok(g) => vensure!(g == ws, "stream-mismatch", "raw into_str_vec mismatch for {}", short(want)),
            Err(e) => vfail!("stream-mismatch", "raw into_str_vec failed on valid UTF-8 keys: {:?}", e),
        }
        match f.stream().into_str_keys() {
            Ok(g) => vensure!(g == ws.iter().map(|x| x.0.clone()).collect::<Vec<_>>(), "stream-mismatch", "raw into_str_keys mismatch for {}", short(want)),
            Err(e) => vfail!("stream-mismatch", "raw into_str_keys failed on valid UTF-8 keys: {:?}", e),
        }
    }
    // two streams over the same Fst, advanced alternately, do not disturb each other
    {
        let (mut s1, mut s2) = (f.stream(), f.stream());
        let (mut g1, mut g2): (Pairs, Pairs) = (vec![], vec![]);
        let _ = s2.next().map(|(k, o)| g2.push((k.to_vec(), o.value())));
        loop {
            let a = s1.next().map(|(k, o)| g1.push((k.to_vec(), o.value()))).is_some();
            let b = s2.next().map(|(k, o)| g2.push((k.to_vec(), o.value()))).is_some();
            if !a && !b {
                break;
            }
        }
        vensure!(&g1 == want && &g2 == want, "stream-mismatch", "two interleaved streams over one Fst yield {} and {} but inserted {}", short(&g1), short(&g2), short(want));
    }
    // stream keeps returning None after exhaustion
    let mut s = f.stream();
    while s.next().is_some() {}
    vensure!(s.next().is_none() && s.next().is_none(), "stream-restart", "stream yields items after returning None");
    Ok(())
}

pub fn check_input(input: &FstInput, full: bool, rec: &mut Rec) -> CheckResult {
    rec.eval();
    let built = match gen::build(input) {
        Ok(b) => b,
        Err(e) => vfail!("build-error", "valid input rejected by {}: {} (input {})", input.front.name(), e, short(&input.pairs)),
    };
    if classify(input, built.evictions, rec) {
        rec.nontrivial(input.hash());
        if rec.wants_sample() {
            rec.sample(input.sample());
        }
    }
    check_bytes(&built.bytes, input, full)
}

/// Set front ends fed non-strictly increasing keys (repeats are no-ops).
#[derive(Clone, Debug)]
pub struct DupCase {
    pub front: Front,
    pub keys: Vec<Vec<u8>>, // sorted, with repeats
}

impl DupCase {
    fn to_json(&self) -> Value {
        json!({"front": self.front.name(), "keys": crate::engine::keys_json(&self.keys)})
    }
    fn from_json(v: &Value) -> Option<DupCase> {
        Some(DupCase {
            front: Front::from_name(v.get("front")?.as_str()?)?,
            keys: crate::engine::keys_from_json(v.get("keys")?)?,
        })
    }
}

fn check_dups(c: &DupCase, rec: &mut Rec) -> CheckResult {
    rec.eval();
    let keys = &c.keys;
    let r: Result<Vec<u8>, fst::Error> = (|| match c.front {
        Front::RawAdd => {
            let mut b = fst::raw::Builder::new(vec![])?;
            for k in keys {
                b.add(k)?;
            }
            b.into_inner()
        }
        Front::SetBuilder => {
            let mut b = fst::SetBuilder::new(vec![])?;
            for k in keys {
                b.insert(k)?;
            }
            b.into_inner()
        }
        Front::SetFromIter => Ok(fst::Set::from_iter(keys.iter())?.into_fst().into_inner()),
        Front::RawFromIterSet => Ok(fst::raw::Fst::from_iter_set(keys.iter())?.into_inner()),
        _ => {
            let mut b = fst::SetBuilder::memory();
            b.extend_iter(keys.iter())?;
            b.into_inner()
        }
    })();
    let bytes = match r {
        Ok(b) => b,
        Err(e) => vfail!("set-dup-rejected", "set front end {} rejected a repeated key: {:?}; keys {:?}", c.front.name(), e, keys.iter().map(|k| crate::engine::show(k)).collect::<Vec<_>>()),
    };
    let mut distinct = keys.clone();
    distinct.dedup();
    let ndup = keys.len() - distinct.len();
    if ndup > 0 && distinct.len() >= 2 {
        rec.nontrivial(H::new().u(c.front as u64).u(0xd0).pairs(&keys.iter().map(|k| (k.clone(), 0)).collect::<Vec<_>>()).get());
        rec.class("set_with_repeated_keys");
    }
    let input = FstInput::new(c.front, None, distinct.into_iter().map(|k| (k, 0)).collect());
    check_bytes(&bytes, &input, true)
}

fn check_recipe(r: &Recipe, rec: &mut Rec) -> CheckResult {
    rec.eval();
    let set = r.values == 0;
    let mut b = fst::raw::Builder::new(Vec::with_capacity(1 << 20)).map_err(|e| crate::engine::Fail::new("build-error", format!("{:?}", e)))?;
    let mut err = None;
    r.for_each(|k, v| {
        if err.is_none() {
            let res = if set { b.add(k) } else { b.insert(k, v) };
            if let Err(e) = res {
                err = Some(format!("{:?} at key {}", e, crate::engine::show(k)));
            }
        }
    });
    if let Some(e) = err {
        vfail!("build-error", "large build rejected valid input: {} (recipe {})", e, r.to_json());
    }
    let bytes = match b.into_inner() {
        Ok(b) => b,
        Err(e) => vfail!("build-error", "into_inner failed: {:?}", e),
    };
    let f = match fst::raw::Fst::new(&bytes[..]) {
        Ok(f) => f,
        Err(e) => vfail!("open-failed", "large build does not open: {:?}", e),
    };
    vensure!(f.len() as u64 == r.n, "len", "len()={} but {} keys inserted (recipe {})", f.len(), r.n, r.to_json());
    let mut s = f.stream();
    let mut i = 0u64;
    let mut bad: Option<String> = None;
    r.for_each(|k, v| {
        if bad.is_some() {
            return;
        }
        match s.next() {
            Some((gk, gv)) => {
                if gk != k || gv.value() != v {
                    bad = Some(format!("item {}: got {}={} want {}={}", i, crate::engine::show(gk), gv.value(), crate::engine::show(k), v));
                }
            }
            None => bad = Some(format!("stream ended after {} items, wanted {}", i, r.n)),
        }
        i += 1;
    });
    if let Some(m) = bad {
        vfail!("stream-mismatch", "large build: {} (recipe {})", m, r.to_json());
    }
    vensure!(s.next().is_none(), "stream-mismatch", "large build: stream yields more than the {} inserted keys", r.n);
    rec.nontrivial(H::new().u(r.kind as u64).u(r.n).u(r.seed).u(r.values as u64).u(r.fanout as u64).get());
    rec.class("large_build");
    if bytes.len() > (1 << 16) {
        rec.class("file_over_64KiB");
    }
    if bytes.len() > (1 << 24) {
        rec.class("file_over_16MiB");
    }
    if rec.wants_sample() {
        rec.sample(json!({"recipe": r.to_json(), "file_bytes": bytes.len()}));
    }
    Ok(())
}

pub fn recipe_strategy(max_n: u64) -> impl Strategy<Value = Recipe> {
    (0u8..3, (max_n / 4)..=max_n, any::<u64>(), 2u8..=16, 6u8..=32, 0u8..4).prop_map(
        |(kind, n, seed, fanout, keylen, values)| Recipe { kind, n, seed, fanout, keylen, values },
    )
}

const GEOMS_ENUM: [Option<(usize, usize)>; 4] = [None, Some((1, 1)), Some((1, 2)), Some((2, 3))];

fn enum_u3_case(idx: u64) -> FstInput {
    let u3 = gen::u3();
    let mask = idx & 0x7fff;
    let rest = idx >> 15;
    let pattern = rest % 6;
    let geom = GEOMS_ENUM[((rest / 6) % 4) as usize];
    let keys = gen::subset(&u3, mask);
    let pairs = gen::enum_values(pattern, &keys);
    let front = if pattern == 0 {
        gen::SET_FRONTS[(mask % gen::SET_FRONTS.len() as u64) as usize]
    } else {
        gen::MAP_FRONTS[(mask % gen::MAP_FRONTS.len() as u64) as usize]
    };
    FstInput::new(front, geom, pairs)
}

fn enum_u2_case(idx: u64) -> Option<FstInput> {
    // idx encodes base-4 digits per key of U2: 0 = absent, 1..3 = value 0/1/256
    let u2 = gen::u2();
    let mut x = idx % 16384;
    let geom = if idx / 16384 == 0 { None } else { Some((1, 1)) };
    let mut pairs = vec![];
    for k in &u2 {
        let d = x % 4;
        x /= 4;
        if d > 0 {
            pairs.push((k.clone(), [0u64, 1, 256][(d - 1) as usize]));
        }
    }
    Some(FstInput::new(Front::RawInsert, geom, pairs))
}

fn enum_ub_case(idx: u64) -> FstInput {
    let ub = gen::ub();
    let mask = idx & 0xff;
    let rest = idx >> 8;
    let front = gen::ALL_FRONTS[(rest % 14) as usize];
    let pattern = (rest / 14) % 6;
    let geom = GEOMS_ENUM[((rest / 84) % 4) as usize];
    let keys = gen::subset(&ub, mask);
    FstInput::new(front, geom, gen::enum_values(pattern, &keys))
}

pub fn run(e: &Engine) {
    e.set_rule("cases are (front end, cache geometry, strictly increasing key/value pairs): exhaustive subsets of small universes x value patterns x geometries, proptest-generated shapes (dense, full-byte, fan-out forcing 0..256, long keys, numeric) through all 14 builder front ends, and large recipe-generated builds; non-trivial = at least 2 keys and one of shared first byte, shared last byte, a non-zero value, root fan-out > 1; distinct by hash of (front end, geometry, type, pairs)");
    e.assume("the ordered-map model (sorted Vec of pairs) is the specification of the content");

    e.run_enum("u3-subsets-x-patterns-x-geoms", 32768 * 6 * 4, |idx, rec| {
        let input = enum_u3_case(idx);
        crate::engine::guarded(|| check_input(&input, false, rec)).map_err(|f| (input.to_json(), f))
    });
    e.run_enum("u2-all-value-assignments", 16384 * 2, |idx, rec| {
        let input = enum_u2_case(idx).unwrap();
        crate::engine::guarded(|| check_input(&input, false, rec)).map_err(|f| (input.to_json(), f))
    });
    e.run_enum("ub-byte-order-edge-cases", 256 * 14 * 6 * 4, |idx, rec| {
        let input = enum_ub_case(idx);
        crate::engine::guarded(|| check_input(&input, true, rec)).map_err(|f| (input.to_json(), f))
    });
    let n = e.tier.pick(30_000, 300_000);
    let long = e.tier.pick(300, 70_000);
    e.run_prop(
        "random-shapes-all-front-ends",
        n,
        || gen::fst_input(40, long),
        |c| c.to_json(),
        |c, rec| check_input(c, true, rec),
    );
    e.run_prop(
        "set-builders-repeated-keys",
        e.tier.pick(4_000, 60_000),
        || {
            (
                (0usize..gen::SET_FRONTS.len()).prop_map(|i| gen::SET_FRONTS[i]),
                gen::small_pairs(12, 40),
                proptest::collection::vec(0usize..4, 0..16),
            )
                .prop_filter_map("extend_stream has its own check in C06", |(front, ps, reps)| {
                    if front == Front::SetExtendStream {
                        return None;
                    }
                    let mut keys = vec![];
                    for (i, (k, _)) in ps.iter().enumerate() {
                        let r = 1 + reps.get(i % reps.len().max(1)).copied().unwrap_or(0) % 3;
                        for _ in 0..r {
                            keys.push(k.clone());
                        }
                    }
                    Some(DupCase { front, keys })
                })
        },
        |c| c.to_json(),
        check_dups,
    );
    let (ncases, max_n) = match e.tier {
        Tier::Quick => (16, 150_000),
        Tier::Thorough => (64, 2_000_000),
    };
    e.run_prop("large-recipes", ncases, || recipe_strategy(max_n), |c| c.to_json(), check_recipe);
    if e.tier == Tier::Thorough {
        crate::fuzzrun::campaign(e, "roundtrip", 120_000, 700);
    }
    let huge = vec![Recipe { kind: 1, n: e.tier.pick(2_300_000, 4_000_000), seed: e.seed ^ 0x16, fanout: 16, keylen: 12, values: 2 }];
    e.run_list("one-file-over-16MiB", &huge, |r| r.to_json(), check_recipe);
    e.require_class("file_over_16MiB", 1);
    e.require_class("has_empty_key", 1);
    e.require_class("cache_evicted", 1);
    e.require_class("fanout_256", 1);
    e.require_class("fanout_33..63", 1);
    e.require_class("value_u64_max", 1);
}

pub fn replay(sub: &str, case: &Value) -> Option<CheckResult> {
    let mut rec = Rec::new(0);
    Some(crate::engine::guarded(|| match sub {
        "set-builders-repeated-keys" => check_dups(&DupCase::from_json(case).ok_or_else(bad)?, &mut rec),
        "large-recipes" | "one-file-over-16MiB" => check_recipe(&Recipe::from_json(case).ok_or_else(bad)?, &mut rec),
        _ => check_input(&FstInput::from_json(case).ok_or_else(bad)?, true, &mut rec),
    }))
}

pub fn bad() -> crate::engine::Fail {
    crate::engine::Fail::new("bad-replay", "replay case not understood".to_string())
}
