//! C06 Builders enforce the ordering contract; rejected inserts leave no
//! trace.

use fst::raw::Output;
use proptest::prelude::*;
use serde_json::{json, Value};

use crate::engine::{pairs_from_json, pairs_json, show, CheckResult, Engine, Fail, Rec, H};
use crate::gen::{self, KeyStream, MapVecStream, Pairs, VecStream};
use crate::props::c01::bad;

#[derive(Clone, Copy, Debug, PartialEq, Eq)]
pub enum BKind {
    Map,
    Set,
    RawInsert,
    RawAdd,
}

impl BKind {
    const ALL: [BKind; 4] = [BKind::Map, BKind::Set, BKind::RawInsert, BKind::RawAdd];
    fn name(self) -> &'static str {
        match self {
            BKind::Map => "MapBuilder",
            BKind::Set => "SetBuilder",
            BKind::RawInsert => "raw::Builder(insert)",
            BKind::RawAdd => "raw::Builder(add)",
        }
    }
    fn from_name(s: &str) -> Option<BKind> {
        BKind::ALL.into_iter().find(|k| k.name() == s)
    }
    fn is_set(self) -> bool {
        matches!(self, BKind::Set | BKind::RawAdd)
    }
}

#[derive(Clone, Copy, Debug, PartialEq, Eq)]
pub enum Bulk {
    None,
    /// ops[start..start+len] go through extend_iter
    ExtendIter(usize, usize),
    /// ops[start..start+len] go through extend_stream
    ExtendStream(usize, usize),
    /// the whole sequence goes through from_iter
    FromIter,
}

#[derive(Clone, Debug)]
pub struct Case {
    pub kind: BKind,
    pub ops: Pairs, // arbitrary order, repeats allowed
    pub bulk: Bulk,
}

impl Case {
    fn to_json(&self) -> Value {
        let bulk = match self.bulk {
            Bulk::None => json!("none"),
            Bulk::ExtendIter(s, l) => json!({"extend_iter": [s, l]}),
            Bulk::ExtendStream(s, l) => json!({"extend_stream": [s, l]}),
            Bulk::FromIter => json!("from_iter"),
        };
        json!({"builder": self.kind.name(), "ops": pairs_json(&self.ops), "bulk": bulk})
    }
    fn from_json(v: &Value) -> Option<Case> {
        let b = v.get("bulk")?;
        let bulk = if b.as_str() == Some("none") {
            Bulk::None
        } else if b.as_str() == Some("from_iter") {
            Bulk::FromIter
        } else if let Some(a) = b.get("extend_iter") {
            Bulk::ExtendIter(a.get(0)?.as_u64()? as usize, a.get(1)?.as_u64()? as usize)
        } else {
            let a = b.get("extend_stream")?;
            Bulk::ExtendStream(a.get(0)?.as_u64()? as usize, a.get(1)?.as_u64()? as usize)
        };
        Some(Case { kind: BKind::from_name(v.get("builder")?.as_str()?)?, ops: pairs_from_json(v.get("ops")?)?, bulk })
    }
    fn show(&self) -> String {
        format!(
            "{} ops=[{}] bulk={:?}",
            self.kind.name(),
            self.ops.iter().map(|(k, v)| format!("{}={}", show(k), v)).collect::<Vec<_>>().join(", "),
            self.bulk
        )
    }
}

#[derive(Clone, Debug, PartialEq, Eq)]
enum Verdict {
    Accept,
    Noop,
    Duplicate(Vec<u8>),
    OutOfOrder(Vec<u8>, Vec<u8>),
}

/// Reference interpreter: what a single insert of `key` must do.
fn verdict(set: bool, last: &Option<Vec<u8>>, key: &[u8]) -> Verdict {
    match last {
        None => Verdict::Accept,
        Some(l) => {
            if key > &l[..] {
                Verdict::Accept
            } else if key == &l[..] {
                if set {
                    Verdict::Noop
                } else {
                    Verdict::Duplicate(key.to_vec())
                }
            } else {
                Verdict::OutOfOrder(l.clone(), key.to_vec())
            }
        }
    }
}

fn describe(r: &Result<(), fst::Error>) -> String {
    match r {
        Ok(()) => "Ok(())".to_string(),
        Err(fst::Error::Fst(fst::raw::Error::DuplicateKey { got })) => format!("DuplicateKey{{got:{}}}", show(got)),
        Err(fst::Error::Fst(fst::raw::Error::OutOfOrder { previous, got })) => {
            format!("OutOfOrder{{previous:{},got:{}}}", show(previous), show(got))
        }
        Err(e) => format!("{:?}", e),
    }
}

fn matches(v: &Verdict, r: &Result<(), fst::Error>) -> bool {
    match (v, r) {
        (Verdict::Accept, Ok(())) | (Verdict::Noop, Ok(())) => true,
        (Verdict::Duplicate(k), Err(fst::Error::Fst(fst::raw::Error::DuplicateKey { got }))) => got == k,
        (Verdict::OutOfOrder(p, k), Err(fst::Error::Fst(fst::raw::Error::OutOfOrder { previous, got }))) => previous == p && got == k,
        _ => false,
    }
}

enum B {
    Map(fst::MapBuilder<Vec<u8>>),
    Set(fst::SetBuilder<Vec<u8>>),
    Raw(fst::raw::Builder<Vec<u8>>),
}

impl B {
    fn new(kind: BKind) -> B {
        match kind {
            BKind::Map => B::Map(fst::MapBuilder::new(vec![]).unwrap()),
            BKind::Set => B::Set(fst::SetBuilder::new(vec![]).unwrap()),
            _ => B::Raw(fst::raw::Builder::new(vec![]).unwrap()),
        }
    }
    fn insert(&mut self, kind: BKind, k: &[u8], v: u64) -> Result<(), fst::Error> {
        match self {
            B::Map(b) => b.insert(k, v),
            B::Set(b) => b.insert(k),
            B::Raw(b) => {
                if kind == BKind::RawAdd {
                    b.add(k)
                } else {
                    b.insert(k, v)
                }
            }
        }
    }
    fn bytes_written(&self) -> u64 {
        match self {
            B::Map(b) => b.bytes_written(),
            B::Set(b) => b.bytes_written(),
            B::Raw(b) => b.bytes_written(),
        }
    }
    fn extend_iter(&mut self, kind: BKind, items: &[(Vec<u8>, u64)], consumed: &std::cell::Cell<usize>) -> Result<(), fst::Error> {
        // an iterator without a size hint for every other call
        let mut inner = items.iter();
        let hintless = items.len() % 2 == 1;
        let it: Box<dyn Iterator<Item = &(Vec<u8>, u64)>> = if hintless { Box::new(std::iter::from_fn(move || inner.next())) } else { Box::new(inner) };
        let it = it.inspect(|_| consumed.set(consumed.get() + 1));
        match self {
            B::Map(b) => b.extend_iter(it.map(|(k, v)| (k, *v))),
            B::Set(b) => b.extend_iter(it.map(|(k, _)| k)),
            B::Raw(b) => {
                if kind == BKind::RawAdd {
                    // the raw builder has no set-flavoured bulk call
                    let mut r = Ok(());
                    for (k, _) in it {
                        r = b.add(k);
                        if r.is_err() {
                            break;
                        }
                    }
                    r
                } else {
                    b.extend_iter(it.map(|(k, v)| (k, Output::new(*v))))
                }
            }
        }
    }
    fn extend_stream(&mut self, kind: BKind, items: &[(Vec<u8>, u64)]) -> Result<(), fst::Error> {
        match self {
            B::Map(b) => b.extend_stream(MapVecStream(VecStream::new(items))),
            B::Set(b) => b.extend_stream(KeyStream { items, pos: 0 }),
            B::Raw(b) => {
                if kind == BKind::RawAdd {
                    // no set-flavoured bulk call on the raw builder (its
                    // extend_stream is insert-based): single adds
                    let mut r = Ok(());
                    for (k, _) in items {
                        r = b.add(k);
                        if r.is_err() {
                            break;
                        }
                    }
                    r
                } else {
                    b.extend_stream(VecStream::new(items))
                }
            }
        }
    }
    fn finish(self) -> Result<Vec<u8>, fst::Error> {
        match self {
            B::Map(b) => b.into_inner(),
            B::Set(b) => b.into_inner(),
            B::Raw(b) => b.into_inner(),
        }
    }
}

pub fn check(c: &Case, rec: &mut Rec) -> CheckResult {
    rec.eval();
    let set = c.kind.is_set();
    let val = |v: u64| if set { 0 } else { v };
    let mut last: Option<Vec<u8>> = None;
    let mut accepted: Pairs = vec![];
    let mut rejected_then_accepted = false;
    let mut seen_reject = false;
    let mut n_reject = 0;

    if c.bulk == Bulk::FromIter {
        // expected: first rejected item decides
        let mut want: Option<Verdict> = None;
        for (k, v) in &c.ops {
            match verdict(set, &last, k) {
                Verdict::Accept => {
                    last = Some(k.clone());
                    accepted.push((k.clone(), val(*v)));
                }
                Verdict::Noop => {}
                bad => {
                    want = Some(bad);
                    break;
                }
            }
        }
        // each once from an iterator with an exact size hint and once from one without any
        let mut it = c.ops.iter();
        let results: Vec<(&str, Result<Vec<u8>, fst::Error>)> = match c.kind {
            BKind::Map => vec![
                ("Map::from_iter", fst::Map::from_iter(c.ops.iter().map(|(k, v)| (k, *v))).map(|m| m.into_fst().into_inner())),
                ("Map::from_iter(no size hint)", fst::Map::from_iter(std::iter::from_fn(|| it.next().map(|(k, v)| (k, *v)))).map(|m| m.into_fst().into_inner())),
            ],
            BKind::Set => vec![
                ("Set::from_iter", fst::Set::from_iter(c.ops.iter().map(|(k, _)| k)).map(|m| m.into_fst().into_inner())),
                ("Set::from_iter(no size hint)", fst::Set::from_iter(std::iter::from_fn(|| it.next().map(|(k, _)| k))).map(|m| m.into_fst().into_inner())),
            ],
            BKind::RawInsert => vec![
                ("Fst::from_iter_map", fst::raw::Fst::from_iter_map(c.ops.iter().map(|(k, v)| (k, *v))).map(|m| m.into_inner())),
                ("Fst::from_iter_map(no size hint)", fst::raw::Fst::from_iter_map(std::iter::from_fn(|| it.next().map(|(k, v)| (k, *v)))).map(|m| m.into_inner())),
            ],
            BKind::RawAdd => vec![
                ("Fst::from_iter_set", fst::raw::Fst::from_iter_set(c.ops.iter().map(|(k, _)| k)).map(|m| m.into_inner())),
                ("Fst::from_iter_set(no size hint)", fst::raw::Fst::from_iter_set(std::iter::from_fn(|| it.next().map(|(k, _)| k))).map(|m| m.into_inner())),
            ],
        };
        for (name, r) in results {
            match (&want, r) {
                (None, Ok(bytes)) => check_content(&bytes, &accepted, c)?,
                (Some(w), Err(e)) => {
                    let r: Result<(), fst::Error> = Err(e);
                    vensure!(matches(w, &r), "bulk-error", "{} returned {} but the first rejected item requires {:?}; {}", name, describe(&r), w, c.show());
                }
                (None, Err(e)) => vfail!("bulk-error", "{} returned {:?} for a valid sequence; {}", name, e, c.show()),
                (Some(w), Ok(_)) => vfail!("bulk-error", "{} succeeded but item must be rejected with {:?}; {}", name, w, c.show()),
            }
        }
        if want.is_some() {
            rec.class("from_iter_with_bad_item");
        }
        return Ok(());
    }

    let mut b = B::new(c.kind);
    let mut i = 0;
    while i < c.ops.len() {
        let bulk_here = match c.bulk {
            Bulk::ExtendIter(s, l) | Bulk::ExtendStream(s, l) if s == i && l > 0 => Some(l.min(c.ops.len() - i)),
            _ => None,
        };
        if let Some(l) = bulk_here {
            let items = &c.ops[i..i + l];
            // reference: items up to the first rejected one are applied
            let mut want: Option<Verdict> = None;
            let mut consumed_want = 0;
            let before_last = last.clone();
            let _ = before_last;
            for (k, v) in items {
                consumed_want += 1;
                match verdict(set, &last, k) {
                    Verdict::Accept => {
                        last = Some(k.clone());
                        accepted.push((k.clone(), val(*v)));
                        if seen_reject {
                            rejected_then_accepted = true;
                        }
                    }
                    Verdict::Noop => {}
                    bad => {
                        want = Some(bad);
                        break;
                    }
                }
            }
            let consumed = std::cell::Cell::new(0usize);
            let (name, r) = match c.bulk {
                Bulk::ExtendIter(..) => ("extend_iter", b.extend_iter(c.kind, items, &consumed)),
                _ => ("extend_stream", b.extend_stream(c.kind, items)),
            };
            let w = want.clone().unwrap_or(Verdict::Accept);
            vensure!(matches(&w, &r), "bulk-error", "{}.{} returned {} but the reference interpreter requires {:?} (first rejected item decides); {}", c.kind.name(), name, describe(&r), w, c.show());
            if matches!(c.bulk, Bulk::ExtendIter(..)) {
                vensure!(consumed.get() == consumed_want, "bulk-continued", "{}.extend_iter consumed {} items but must stop at the first rejected item (after {}); {}", c.kind.name(), consumed.get(), consumed_want, c.show());
            }
            if want.is_some() {
                seen_reject = true;
                n_reject += 1;
                rec.class("bulk_with_bad_item");
            }
            i += l;
            continue;
        }
        let (k, v) = &c.ops[i];
        let want = verdict(set, &last, k);
        let before = b.bytes_written();
        let r = b.insert(c.kind, k, *v);
        vensure!(matches(&want, &r), "insert-result", "{} call #{} insert({}) returned {} but the contract requires {:?} (last accepted key {:?}); {}", c.kind.name(), i, show(k), describe(&r), want, last.as_ref().map(|l| show(l)), c.show());
        match want {
            Verdict::Accept => {
                last = Some(k.clone());
                accepted.push((k.clone(), val(*v)));
                if seen_reject {
                    rejected_then_accepted = true;
                }
            }
            Verdict::Noop => {
                vensure!(b.bytes_written() == before, "noop-wrote", "repeating key {} in a set builder changed bytes_written {} -> {}", show(k), before, b.bytes_written());
            }
            _ => {
                seen_reject = true;
                n_reject += 1;
                vensure!(b.bytes_written() == before, "reject-wrote", "rejected insert({}) changed bytes_written {} -> {}; {}", show(k), before, b.bytes_written(), c.show());
            }
        }
        i += 1;
    }
    let bytes = match b.finish() {
        Ok(x) => x,
        Err(e) => vfail!("finish-error", "finish failed after a history with {} rejected calls: {:?}; {}", n_reject, e, c.show()),
    };
    check_content(&bytes, &accepted, c)?;
    // no trace at all: the bytes equal those of a builder that only ever saw the accepted calls
    if n_reject > 0 {
        let mut clean = B::new(c.kind);
        for (k, v) in &accepted {
            if let Err(e) = clean.insert(c.kind, k, *v) {
                vfail!("harness", "reference build of the accepted pairs failed: {:?}", e);
            }
        }
        let want = clean.finish().map_err(|e| Fail::new("harness", format!("{:?}", e)))?;
        vensure!(bytes == want, "reject-left-trace", "after {} rejected call(s) the finished FST differs byte-wise from a build of the accepted calls alone ({} vs {} bytes), although its content is the same; {}", n_reject, bytes.len(), want.len(), c.show());
    }
    if !rec.muted {
        rec.class(&format!("builder:{}", c.kind.name()));
        if n_reject > 0 {
            rec.class("has_rejected_call");
        }
        if c.ops.iter().any(|o| o.0.is_empty()) {
            rec.class("uses_empty_key");
        }
        if rejected_then_accepted {
            let h = H::new().u(c.kind as u64).pairs(&c.ops).u(match c.bulk {
                Bulk::None => 0,
                Bulk::ExtendIter(s, l) => 1 + (s * 1000 + l) as u64,
                Bulk::ExtendStream(s, l) => 500_000 + (s * 1000 + l) as u64,
                Bulk::FromIter => 999_999,
            });
            rec.nontrivial(h.get());
            if rec.wants_sample() {
                rec.sample(json!(c.show()));
            }
        }
    }
    Ok(())
}

fn check_content(bytes: &[u8], accepted: &Pairs, c: &Case) -> CheckResult {
    let f = fst::raw::Fst::new(bytes).map_err(|e| Fail::new("open-failed", format!("{:?}", e)))?;
    let got = gen::collect_stream(f.stream());
    vensure!(&got == accepted, "content", "finished FST contains {} but the accepted inserts were {}; {}", crate::oracle::keys_show(&got), crate::oracle::keys_show(accepted), c.show());
    vensure!(f.len() == accepted.len(), "content-len", "finished FST len()={} but {} keys were accepted; {}", f.len(), accepted.len(), c.show());
    Ok(())
}

fn ops_strategy(maxlen: usize) -> impl Strategy<Value = Pairs> {
    // keys from a small universe, mostly increasing with a configurable
    // error rate (so long valid runs with interspersed bad calls occur)
    let key = prop_oneof![
        3 => proptest::collection::vec(prop_oneof![Just(b'a'), Just(b'b'), Just(0u8), Just(0xffu8)], 0..=3),
        1 => proptest::collection::vec(any::<u8>(), 0..=4),
    ];
    (proptest::collection::vec((key, gen::value_strategy(), any::<u8>()), 0..=maxlen), 0u8..=128).prop_map(|(raw, err_rate)| {
        // sort, then move some items out of place / duplicate them
        let mut items: Vec<(Vec<u8>, u64, u8)> = raw;
        items.sort_by(|a, b| a.0.cmp(&b.0));
        let mut out: Pairs = vec![];
        let n = items.len();
        for (i, (k, v, r)) in items.iter().enumerate() {
            out.push((k.clone(), *v));
            if *r < err_rate {
                // inject an earlier key (out of order) or repeat this one
                let j = (*r as usize * 7 + i) % (i + 1);
                if r % 2 == 0 {
                    out.push((items[j].0.clone(), v.wrapping_add(1)));
                } else {
                    out.push((k.clone(), v.wrapping_add(1)));
                }
            }
        }
        let _ = n;
        out
    })
}

pub fn run(e: &Engine) {
    e.set_rule("cases are call histories: sequences of insert calls (valid, duplicate, smaller, empty keys) on MapBuilder, SetBuilder and raw::Builder (insert-only, add-only), optionally with a slice of the sequence routed through extend_iter / extend_stream or the whole sequence through from_iter, followed by finish; oracle = reference interpreter over the last accepted key (result variant + payload of every call, bytes_written unchanged by rejected calls, final content and len); non-trivial = a rejected call followed by an accepted call; distinct by (builder, op sequence, bulk placement)");
    e.assume("mixing add and insert on one raw builder is outside the statement and not generated");
    let uni: Vec<Vec<u8>> = vec![vec![], b"a".to_vec(), b"ab".to_vec(), b"b".to_vec()];
    // every sequence of length <= 5 over the universe: 1+4+16+64+256+1024 = 1365
    let mut seqs: Vec<Vec<usize>> = vec![vec![]];
    let mut frontier: Vec<Vec<usize>> = vec![vec![]];
    for _ in 0..5 {
        let mut next = vec![];
        for s in &frontier {
            for j in 0..4 {
                let mut t = s.clone();
                t.push(j);
                next.push(t);
            }
        }
        seqs.extend(next.iter().cloned());
        frontier = next;
    }
    let nseq = seqs.len() as u64; // 1365
    let seqs_ref = &seqs;
    let uni_ref = &uni;
    // x 4 builders x 2 value patterns, single inserts
    e.run_enum("all-histories-len<=5", nseq * 4 * 2, |idx, rec| {
        let s = &seqs_ref[(idx % nseq) as usize];
        let kind = BKind::ALL[((idx / nseq) % 4) as usize];
        let vp = idx / (nseq * 4);
        let ops: Pairs = s.iter().enumerate().map(|(i, &j)| (uni_ref[j].clone(), if vp == 0 { i as u64 + 1 } else { 1000 - 100 * i as u64 })).collect();
        let c = Case { kind, ops, bulk: Bulk::None };
        crate::engine::guarded(|| check(&c, rec)).map_err(|f| (c.to_json(), f))
    });
    // bulk front ends: every (start, len) placement in every history of length <= 4, plus from_iter
    let n4 = 1 + 4 + 16 + 64 + 256; // histories of length <= 4 come first in `seqs`
    e.run_enum("all-histories-len<=4-bulk-placements", n4 * 4, |idx, rec| {
        let s = &seqs_ref[(idx % n4) as usize];
        let kind = BKind::ALL[(idx / n4) as usize];
        let ops: Pairs = s.iter().enumerate().map(|(i, &j)| (uni_ref[j].clone(), i as u64 + 1)).collect();
        let mut bulks = vec![Bulk::FromIter];
        for start in 0..ops.len() {
            for len in 1..=(ops.len() - start) {
                bulks.push(Bulk::ExtendIter(start, len));
                bulks.push(Bulk::ExtendStream(start, len));
            }
        }
        for bulk in bulks {
            let c = Case { kind, ops: ops.clone(), bulk };
            crate::engine::guarded(|| check(&c, rec)).map_err(|f| (c.to_json(), f))?;
        }
        Ok(())
    });
    e.run_prop(
        "random-histories",
        e.tier.pick(60_000, 1_000_000),
        || {
            (ops_strategy(e.tier.pick(60, 200)), 0usize..4, 0u8..4, any::<u16>(), any::<u16>()).prop_map(|(ops, ki, bm, s, l)| {
                let n = ops.len();
                let start = crate::oracle::pick(s, n.max(1));
                let len = 1 + crate::oracle::pick(l, (n - start.min(n)).max(1));
                let bulk = match bm {
                    0 | 1 => Bulk::None,
                    2 => {
                        if s % 5 == 0 {
                            Bulk::FromIter
                        } else {
                            Bulk::ExtendIter(start, len)
                        }
                    }
                    _ => Bulk::ExtendStream(start, len),
                };
                Case { kind: BKind::ALL[ki], ops, bulk }
            })
        },
        |c| c.to_json(),
        check,
    );
    // long keys (beyond 255 / 65 535 bytes, rejected keys much longer or shorter than the last
    // accepted one, shared prefixes far beyond 16 bytes) and long histories (> 2^16 accepted keys)
    e.run_prop(
        "long-keys-and-long-histories",
        e.tier.pick(1_500, 40_000),
        || {
            let lens = prop_oneof![Just(0usize), Just(1), Just(17), Just(255), Just(256), Just(257), Just(1000), Just(65_535), Just(65_536), Just(70_000), 2usize..600];
            (proptest::collection::vec((lens, 0u8..3, gen::value_strategy()), 1..10), 0usize..4, 0u8..3, prop::bool::weighted(0.05))
                .prop_map(|(items, ki, bm, long_history)| {
                    let mut ops: Pairs = vec![];
                    if long_history {
                        // 70 000 accepted keys with a rejected call now and then
                        for i in 0..70_000u32 {
                            ops.push((format!("{:07}", i).into_bytes(), i as u64));
                            if i % 9_973 == 5 {
                                ops.push((format!("{:07}", i / 2).into_bytes(), 1));
                                ops.push((format!("{:07}", i).into_bytes(), 2));
                            }
                        }
                    }
                    for (len, tail, v) in items {
                        // keys share the prefix "pppp…" and differ in length / last byte
                        let mut k = vec![b'p'; len];
                        if len > 0 {
                            k[len - 1] = b'p' + tail;
                        }
                        if long_history {
                            k.insert(0, b'z');
                        }
                        ops.push((k, v));
                    }
                    let n = ops.len();
                    let bulk = match bm {
                        0 => Bulk::None,
                        1 => Bulk::ExtendIter(n.saturating_sub(5), 5.min(n)),
                        _ => Bulk::ExtendStream(n.saturating_sub(4), 4.min(n)),
                    };
                    Case { kind: BKind::ALL[ki], ops, bulk }
                })
        },
        |c| if c.ops.len() > 1000 { json!({"builder": c.kind.name(), "n_ops": c.ops.len(), "note": "long history, regenerate from the seed"}) } else { c.to_json() },
        |c, rec| {
            if c.ops.iter().any(|o| o.0.len() > 255) {
                rec.class("key_longer_than_255");
            }
            if c.ops.len() > 65_536 {
                rec.class("more_than_2^16_calls");
            }
            check(c, rec)
        },
    );
    for cls in ["has_rejected_call", "uses_empty_key", "bulk_with_bad_item", "from_iter_with_bad_item", "key_longer_than_255", "more_than_2^16_calls"] {
        e.require_class(cls, 1);
    }
}

pub fn replay(_sub: &str, case: &Value) -> Option<CheckResult> {
    let mut rec = Rec::new(0);
    Some(crate::engine::guarded(|| check(&Case::from_json(case).ok_or_else(bad)?, &mut rec)))
}
