//! C02 Point lookups agree with the inserted map for every probe.

use proptest::prelude::*;
use serde_json::{json, Value};

use crate::engine::{keys_from_json, keys_json, CheckResult, Engine, Rec, H};
use crate::gen::{self, FstInput};
use crate::oracle;
use crate::props::c01::bad;

#[derive(Clone, Debug)]
pub struct Case {
    pub input: FstInput,
    pub extra: Vec<Vec<u8>>,
    pub all_bytes: bool,
}

impl Case {
    fn to_json(&self) -> Value {
        json!({"input": self.input.to_json(), "extra_probes": keys_json(&self.extra), "all_bytes": self.all_bytes})
    }
    fn from_json(v: &Value) -> Option<Case> {
        Some(Case {
            input: FstInput::from_json(v.get("input")?)?,
            extra: keys_from_json(v.get("extra_probes")?)?,
            all_bytes: v.get("all_bytes")?.as_bool()?,
        })
    }
}

pub fn check(c: &Case, rec: &mut Rec) -> CheckResult {
    let built = match gen::build(&c.input) {
        Ok(b) => b,
        Err(e) => vfail!("build-error", "valid input rejected: {}", e),
    };
    let (probes, st) = oracle::probes(&c.input.pairs, c.all_bytes, &c.extra);
    rec.evals(probes.len() as u64);
    if !rec.muted {
        rec.class("fsts");
        if built.evictions > 0 {
            rec.class("cache_evicted");
        }
        let mf = crate::props::c01::maxfan(&c.input.pairs);
        if mf > 32 {
            rec.class("fanout_over_32(index table)");
        } else if mf > 8 {
            rec.class("fanout_9..32(linear scan)");
        }
        if c.input.pairs.len() >= 2 && st.absent_prefix && st.absent_extension && st.absent_subst {
            rec.nontrivial(H::new().u(c.input.hash()).u(c.extra.len() as u64).get());
            if rec.wants_sample() {
                rec.sample(json!({"fst": c.input.sample(), "n_probes": probes.len(),
                    "some_probes": probes.iter().take(8).map(|p| crate::engine::show(p)).collect::<Vec<_>>()}));
            }
        }
    }
    oracle::check_lookups(&built.bytes, &c.input.pairs, &probes)
}

/// One large file, probed with a sample of keys and their variations.
fn check_big(r: &gen::Recipe, rec: &mut Rec) -> CheckResult {
    let pairs = r.pairs();
    let set = r.values == 0;
    let bytes = gen::build_plain(&pairs, set).map_err(|m| crate::engine::Fail::new("build-error", m))?;
    // probes: a sample of keys, their prefixes, extensions and substitutions
    let step = (pairs.len() / 3000).max(1);
    let sample: gen::Pairs = pairs.iter().step_by(step).cloned().collect();
    let (probes, _) = oracle::probes(&sample, false, &[]);
    rec.evals(probes.len() as u64);
    rec.class(if bytes.len() > 1 << 24 { "file_over_16MiB" } else if bytes.len() > 1 << 16 { "file_over_64KiB" } else { "file_small" });
    rec.nontrivial(H::new().u(r.n).u(r.seed).u(0x02).get());
    oracle::check_lookups(&bytes, &pairs, &probes)
}

pub fn run(e: &Engine) {
    e.set_rule("cases are (built FST, probe set); probes are constructed from the model: every key, every proper prefix, one-byte extensions, single-byte substitutions at every position (all 255 replacement bytes in the enumerated scopes), all 256 bytes below wide nodes, random strings; evaluations counts probes (each probe is checked through 5 lookup APIs); non-trivial = FST with >= 2 keys whose probe set contains an absent proper prefix, an absent extension and an absent substitution; distinct by (FST hash, extra probes)");
    e.assume("model membership (BTreeMap) is the specification");
    // all subsets of U3, sets and maps, probes with all bytes over a reduced byte alphabet
    e.run_enum("u3-subsets-all-probes", 32768 * 2, |idx, rec| {
        let u3 = gen::u3();
        let mask = idx & 0x7fff;
        let map = idx >> 15 == 1;
        let keys = gen::subset(&u3, mask);
        let pairs = gen::enum_values(if map { 3 } else { 0 }, &keys);
        let front = if map { gen::Front::MapBuilder } else { gen::Front::SetBuilder };
        let geom = if mask % 3 == 0 { Some((1, 2)) } else { None };
        let c = Case { input: FstInput::new(front, geom, pairs), extra: vec![], all_bytes: false };
        crate::engine::guarded(|| check(&c, rec)).map_err(|f| (c.to_json(), f))
    });
    e.run_enum("ub-subsets-all-255-substitutions", 256 * 2, |idx, rec| {
        let ub = gen::ub();
        let keys = gen::subset(&ub, idx & 0xff);
        let pairs = gen::enum_values(if idx >> 8 == 1 { 3 } else { 1 }, &keys);
        let c = Case { input: FstInput::new(gen::Front::RawInsert, None, pairs), extra: vec![], all_bytes: true };
        crate::engine::guarded(|| check(&c, rec)).map_err(|f| (c.to_json(), f))
    });
    e.run_prop(
        "random-fsts-model-probes",
        e.tier.pick(12_000, 300_000),
        || {
            (gen::fst_input(40, e.tier.pick(300, 5000)), proptest::collection::vec(proptest::collection::vec(any::<u8>(), 0..8), 0..8), prop::bool::weighted(0.05))
                .prop_map(|(input, extra, all)| Case { all_bytes: all && input.pairs.len() <= 12, input, extra })
        },
        |c| c.to_json(),
        check,
    );
    // large files: address deltas of 2, 3 (and once 4) bytes on the lookup path
    let mut big: Vec<gen::Recipe> = (0..e.tier.pick(6u64, 24)).map(|i| gen::Recipe { kind: (1 + i % 3) as u8, n: 30_000 + i * 17_000, seed: crate::engine::mix(e.seed, i), fanout: 3 + (i % 6) as u8, keylen: 10 + (i % 9) as u8, values: (i % 4) as u8 }).collect();
    big.push(gen::Recipe { kind: 1, n: e.tier.pick(2_300_000, 4_000_000), seed: e.seed ^ 0x16, fanout: 16, keylen: 12, values: 2 });
    e.run_list("large-files-sampled-probes", &big, |r| r.to_json(), |r, rec| check_big(r, rec));
    e.require_class("file_over_64KiB", 1);
    e.require_class("file_over_16MiB", 1);
    e.require_class("fanout_over_32(index table)", 1);
    e.require_class("fanout_9..32(linear scan)", 1);
}

pub fn replay(sub: &str, case: &Value) -> Option<CheckResult> {
    let mut rec = Rec::new(0);
    if sub == "large-files-sampled-probes" {
        return Some(crate::engine::guarded(|| check_big(&gen::Recipe::from_json(case).ok_or_else(bad)?, &mut rec)));
    }
    Some(crate::engine::guarded(|| check(&Case::from_json(case).ok_or_else(bad)?, &mut rec)))
}
