//! C16 get_key inverts maps whose values increase with the keys.

use std::collections::BTreeMap;

use proptest::prelude::*;
use serde_json::{json, Value};

use crate::engine::{show, CheckResult, Engine, Fail, Rec, H};
use crate::gen::{self, FstInput};
use crate::props::c01::bad;

#[derive(Clone, Debug)]
pub struct Case {
    pub input: FstInput, // values strictly increasing in key order
    pub extra: Vec<u64>,
}

impl Case {
    fn to_json(&self) -> Value {
        json!({"input": self.input.to_json(), "extra_queries": self.extra.iter().map(|v| v.to_string()).collect::<Vec<_>>()})
    }
    fn from_json(v: &Value) -> Option<Case> {
        Some(Case {
            input: FstInput::from_json(v.get("input")?)?,
            extra: v.get("extra_queries")?.as_array()?.iter().map(|x| x.as_str()?.parse().ok()).collect::<Option<Vec<u64>>>()?,
        })
    }
}

pub fn check(c: &Case, rec: &mut Rec) -> CheckResult {
    let pairs = &c.input.pairs;
    assert!(pairs.windows(2).all(|w| w[0].1 < w[1].1), "generator must produce strictly increasing values");
    let built = gen::build(&c.input).map_err(|e| Fail::new("build-error", e))?;
    let f = fst::raw::Fst::new(&built.bytes[..]).map_err(|e| Fail::new("open-failed", format!("{:?}", e)))?;
    let inverse: BTreeMap<u64, &Vec<u8>> = pairs.iter().map(|(k, v)| (*v, k)).collect();
    let mut queries: Vec<u64> = vec![0, 1, u64::MAX, u64::MAX - 1];
    for (_, v) in pairs {
        queries.push(*v);
        queries.push(v.wrapping_add(1));
        queries.push(v.wrapping_sub(1));
    }
    queries.extend(c.extra.iter().copied());
    queries.sort();
    queries.dedup();
    let mut between = false;
    for &q in &queries {
        rec.eval();
        let want = inverse.get(&q).map(|k| (*k).clone());
        let got = f.get_key(q);
        let sig = match (&want, &got) {
            (Some(k), None) if k.is_empty() => "empty-key-not-found",
            (None, Some(k)) if k.is_empty() => "empty-key-invented",
            _ => "get-key-mismatch",
        };
        vensure!(got == want, sig, "get_key({}) = {:?} but the key with that value is {:?}; map {}", q, got.as_ref().map(|k| show(k)), want.as_ref().map(|k| show(k)), crate::oracle::keys_show(pairs));
        let mut buf = b"junk".to_vec();
        let ok = f.get_key_into(q, &mut buf);
        match &want {
            Some(k) => {
                let mut expect = b"junk".to_vec();
                expect.extend_from_slice(k);
                vensure!(ok && buf == expect, "get-key-into", "get_key_into({}) returned {} leaving {} but must return true and append {}; map {}", q, ok, show(&buf), show(k), crate::oracle::keys_show(pairs));
            }
            None => vensure!(!ok, "get-key-into", "get_key_into({}) returned true but no key has that value; map {}", q, crate::oracle::keys_show(pairs)),
        }
        if want.is_none() && pairs.first().map(|p| p.1 < q).unwrap_or(false) && pairs.last().map(|p| p.1 > q).unwrap_or(false) {
            between = true;
        }
    }
    // Map wrapper exposes it through as_fst()
    if !rec.muted {
        if pairs.first().map(|p| p.0.is_empty()).unwrap_or(false) {
            rec.class(if pairs[0].1 == 0 { "empty_key_value_0" } else { "empty_key_value_nonzero" });
        }
        if pairs.first().map(|p| p.1 > 0).unwrap_or(false) {
            rec.class("first_value_above_0");
        }
        if pairs.len() >= 3 && between {
            rec.nontrivial(H::new().u(c.input.hash()).u(c.extra.len() as u64).get());
            if rec.wants_sample() {
                rec.sample(json!({"map": crate::oracle::keys_show(pairs), "n_queries": queries.len()}));
            }
        }
    }
    Ok(())
}

/// Rewrite values to be strictly increasing with the given gaps.
fn monotone(mut pairs: gen::Pairs, start: u64, gaps: &[u64]) -> gen::Pairs {
    let mut cur = start;
    for (i, p) in pairs.iter_mut().enumerate() {
        if i > 0 {
            let g = gaps[(i - 1) % gaps.len().max(1)].max(1);
            cur = match cur.checked_add(g) {
                Some(x) => x,
                None => {
                    // restart low enough to fit: shift everything down (rare)
                    cur
                }
            };
        }
        p.1 = cur;
    }
    // de-duplicate saturated tails (keeps strict monotonicity)
    let mut out: gen::Pairs = vec![];
    for p in pairs {
        if out.last().map(|l: &(Vec<u8>, u64)| l.1 < p.1).unwrap_or(true) {
            out.push(p);
        }
    }
    out
}

/// Case number `i` of the larger monotone maps (regenerated from the seed).
fn check_larger(i: &u64, seed: u64, rec: &mut Rec) -> CheckResult {
    let n = 200 + (crate::engine::mix(seed, *i) % 4000);
    let keys: Vec<Vec<u8>> = if i % 2 == 0 {
        gen::Recipe { kind: 1, n, seed: crate::engine::mix(seed, 77 + *i), fanout: 3 + (*i % 40) as u8, keylen: 8, values: 0 }.pairs().into_iter().map(|p| p.0).collect()
    } else {
        let mut ks: Vec<Vec<u8>> = (0..n).map(|j| { let h = crate::engine::mix(seed ^ *i, j); vec![(h >> 8) as u8, (h >> 16) as u8, (h >> 24) as u8 % 7] }).collect();
        ks.sort();
        ks.dedup();
        ks
    };
    let start = if i % 3 == 0 { 0 } else if i % 3 == 1 { 1u64 << 63 } else { 9 };
    let gaps: Vec<u64> = if i % 4 == 0 { vec![1] } else { vec![1, 255, 256, 1 << 20, 3, 1 << 40] };
    let pairs = monotone(keys.into_iter().map(|k| (k, 0)).collect(), start, &gaps);
    let c = Case { input: FstInput::new(gen::Front::MapBuilder, None, pairs), extra: vec![] };
    rec.class("larger_map");
    check(&c, rec)
}

pub fn run(e: &Engine) {
    e.set_rule("cases are (map with strictly increasing values, query values): queries are every stored value, every value +/- 1, 0, 1, u64::MAX-1, u64::MAX and random values; evaluations counts queries; oracle = inverse of the model for get_key and get_key_into on a junk-prefilled buffer; non-trivial = map with >= 3 keys and a query for an absent value lying between two stored values; distinct by (map hash, extra queries)");
    e.assume("non-monotone maps are never generated (documented unspecified)");
    // all subsets of U3 x gap patterns x first value
    e.run_enum("u3-subsets-x-gap-patterns", 32768 * 3 * 2, |idx, rec| {
        let u3 = gen::u3();
        let mask = idx & 0x7fff;
        let gp = (idx >> 15) % 3;
        let first = if idx >> 15 >= 3 { 5 } else { 0 };
        let keys = gen::subset(&u3, mask);
        let gaps: Vec<u64> = match gp {
            0 => vec![1],
            1 => vec![2],
            _ => vec![1, 255, 2, 256, 70000, 1],
        };
        let pairs = monotone(keys.into_iter().map(|k| (k, 0)).collect(), first, &gaps);
        let c = Case { input: FstInput::new(gen::Front::MapBuilder, None, pairs), extra: vec![] };
        crate::engine::guarded(|| check(&c, rec)).map_err(|f| (c.to_json(), f))
    });
    e.run_prop(
        "random-monotone-maps",
        e.tier.pick(60_000, 1_000_000),
        || {
            let gap = prop_oneof![3 => Just(1u64), 2 => Just(2u64), 1 => Just(255u64), 1 => Just(256u64), 2 => 1u64..100_000, 1 => any::<u64>().prop_map(|x| x >> 8)];
            (
                gen::small_pairs(30, 100),
                (0usize..gen::MAP_FRONTS.len()),
                gen::geom_strategy(),
                prop_oneof![2 => Just(0u64), 1 => 1u64..10, 1 => any::<u64>().prop_map(|x| x >> 4)],
                proptest::collection::vec(gap, 1..8),
                proptest::collection::vec(any::<u64>(), 0..6),
            )
                .prop_map(|(pairs, fi, geom, start, gaps, extra)| Case { input: FstInput::new(gen::MAP_FRONTS[fi], geom, monotone(pairs, start, &gaps)), extra })
        },
        |c| c.to_json(),
        check,
    );
    // larger maps (hundreds to thousands of keys, wide nodes) and values above 2^63
    let bigs: Vec<u64> = (0..e.tier.pick(12u64, 100)).collect();
    let seed = e.seed;
    e.run_list("larger-monotone-maps", &bigs, |i| json!({"big_case": i, "seed": seed.to_string()}), |i, rec| check_larger(i, seed, rec));
    for cls in ["empty_key_value_0", "empty_key_value_nonzero", "first_value_above_0"] {
        e.require_class(cls, 1);
    }
}

pub fn replay(_sub: &str, case: &Value) -> Option<CheckResult> {
    let mut rec = Rec::new(0);
    if let Some(i) = case.get("big_case").and_then(|x| x.as_u64()) {
        return Some(crate::engine::guarded(|| {
            let seed: u64 = case.get("seed").and_then(|x| x.as_str()).and_then(|x| x.parse().ok()).ok_or_else(bad)?;
            check_larger(&i, seed, &mut rec)
        }));
    }
    Some(crate::engine::guarded(|| check(&Case::from_json(case).ok_or_else(bad)?, &mut rec)))
}
