//! C19 Unsorted CLI builds are independent of batching, threads and
//! scheduling.

use std::collections::BTreeMap;
use std::path::PathBuf;
use std::process::Command;

use proptest::prelude::*;
use serde_json::{json, Value};

use crate::engine::{show, CheckResult, Engine, Fail, Rec, H, VERIF_DIR};
use crate::gen::{self, Pairs};
use crate::props::c01::bad;

#[derive(Clone, Copy, Debug, PartialEq, Eq)]
pub enum Mode {
    Set,
    Sum,
    Max,
    Min,
}

impl Mode {
    fn name(self) -> &'static str {
        match self {
            Mode::Set => "set",
            Mode::Sum => "map-sum",
            Mode::Max => "map-max",
            Mode::Min => "map-min",
        }
    }
    fn from_name(s: &str) -> Option<Mode> {
        [Mode::Set, Mode::Sum, Mode::Max, Mode::Min].into_iter().find(|m| m.name() == s)
    }
}

#[derive(Clone, Copy, Debug, PartialEq, Eq)]
pub struct Cfg {
    pub batch: u32,
    pub fd: u32,
    pub threads: u32,
    pub sched: u64,
}

#[derive(Clone, Debug)]
pub struct Case {
    pub mode: Mode,
    pub files: Vec<Vec<(String, u64)>>,
    pub cfgs: Vec<Cfg>,
    /// 0 = "\n" line ends, 1 = "\r\n", 2 = "\n" but no newline after the last line of each file
    pub eol: u8,
    /// 0 = every input is a file; i > 0 = input number (i-1) mod #files is given as "-" and
    /// arrives on standard input (a pipe: it can be read once)
    pub stdin: u8,
}

impl Case {
    fn to_json(&self) -> Value {
        json!({"mode": self.mode.name(),
               "files": self.files.iter().map(|f| f.iter().map(|(k, v)| json!([k, v])).collect::<Vec<_>>()).collect::<Vec<_>>(),
               "configs": self.cfgs.iter().map(|c| json!([c.batch, c.fd, c.threads, c.sched.to_string()])).collect::<Vec<_>>(),
               "eol": self.eol, "stdin": self.stdin})
    }
    fn from_json(v: &Value) -> Option<Case> {
        let files = v
            .get("files")?
            .as_array()?
            .iter()
            .map(|f| f.as_array()?.iter().map(|r| Some((r.get(0)?.as_str()?.to_string(), r.get(1)?.as_u64()?))).collect::<Option<Vec<_>>>())
            .collect::<Option<Vec<_>>>()?;
        let cfgs = v
            .get("configs")?
            .as_array()?
            .iter()
            .map(|c| Some(Cfg { batch: c.get(0)?.as_u64()? as u32, fd: c.get(1)?.as_u64()? as u32, threads: c.get(2)?.as_u64()? as u32, sched: c.get(3)?.as_str()?.parse().ok()? }))
            .collect::<Option<Vec<_>>>()?;
        Some(Case { mode: Mode::from_name(v.get("mode")?.as_str()?)?, files, cfgs, eol: v.get("eol").and_then(|x| x.as_u64()).unwrap_or(0) as u8, stdin: v.get("stdin").and_then(|x| x.as_u64()).unwrap_or(0) as u8 })
    }
    fn rows(&self) -> Vec<&(String, u64)> {
        self.files.iter().flat_map(|f| f.iter()).collect()
    }
    fn model(&self) -> Pairs {
        let mut m: BTreeMap<Vec<u8>, u64> = BTreeMap::new();
        for (k, v) in self.rows() {
            let e = m.entry(k.as_bytes().to_vec());
            match self.mode {
                Mode::Set => {
                    e.or_insert(0);
                }
                Mode::Sum => {
                    *e.or_insert(0) += *v;
                }
                Mode::Max => {
                    let x = e.or_insert(*v);
                    *x = (*x).max(*v);
                }
                Mode::Min => {
                    let x = e.or_insert(*v);
                    *x = (*x).min(*v);
                }
            }
        }
        m.into_iter().collect()
    }
    fn show(&self) -> String {
        format!(
            "{} files=[{}]",
            self.mode.name(),
            self.files
                .iter()
                .map(|f| f.iter().map(|(k, v)| if self.mode == Mode::Set { format!("{:?}", k) } else { format!("{:?},{}", k, v) }).collect::<Vec<_>>().join(" "))
                .collect::<Vec<_>>()
                .join(" | ")
        )
    }
}

fn fst_bin() -> PathBuf {
    std::env::var_os("VERIF_FST_BIN").map(PathBuf::from).unwrap_or_else(|| PathBuf::from(format!("{}/target/repo-hooks/release/fst", VERIF_DIR)))
}

fn csv_field(k: &str) -> String {
    if k.contains(',') || k.contains('"') || k.contains('\r') || k.starts_with(' ') || k.ends_with(' ') {
        format!("\"{}\"", k.replace('"', "\"\""))
    } else {
        k.to_string()
    }
}

struct Dir(PathBuf);
impl Drop for Dir {
    fn drop(&mut self) {
        let _ = std::fs::remove_dir_all(&self.0);
    }
}

pub struct RunInfo {
    pub kv_batches: u64,
    pub union_batches: u64,
    pub generations: u64,
    pub grouping: String,
}

fn run_cli(dir: &PathBuf, case: &Case, inputs: &[PathBuf], cfg: Option<Cfg>, idx: usize) -> Result<(Vec<u8>, RunInfo), Fail> {
    let out = dir.join(format!("out-{}.fst", idx));
    let trace = dir.join(format!("trace-{}.txt", idx));
    let tmp = dir.join(format!("tmp-{}", idx));
    std::fs::create_dir_all(&tmp).map_err(|e| Fail::new("harness-io", e.to_string()))?;
    let mut cmd = Command::new(fst_bin());
    cmd.arg(if case.mode == Mode::Set { "set" } else { "map" });
    // this CLI (clap 2, multiple positional inputs) wants options after the positionals
    let piped: Option<usize> = if cfg.is_some() && case.stdin > 0 && !inputs.is_empty() { Some((case.stdin as usize - 1) % inputs.len()) } else { None };
    for (n, i) in inputs.iter().enumerate() {
        if piped == Some(n) {
            cmd.arg("-");
        } else {
            cmd.arg(i);
        }
    }
    cmd.arg(&out);
    // every third configuration writes over an existing, much longer output file (--force)
    let force = cfg.map(|c| c.sched % 3 == 0).unwrap_or(false);
    if force {
        std::fs::write(&out, vec![0xa5u8; 70_000]).map_err(|e| Fail::new("harness-io", e.to_string()))?;
    }
    match case.mode {
        Mode::Max => {
            cmd.arg("--max");
        }
        Mode::Min => {
            cmd.arg("--min");
        }
        _ => {}
    }
    match cfg {
        Some(c) => {
            // threads == 0 stands for "no tuning options at all": the tool's own defaults
            if c.threads > 0 {
                cmd.arg("--batch-size").arg(c.batch.to_string()).arg("--fd-limit").arg(c.fd.to_string()).arg("--threads").arg(c.threads.to_string());
            }
            if c.sched % 5 == 1 {
                cmd.arg("--keep-tmp-dir");
            }
            // (`--tmp-dir` is declared as a boolean flag in this CLI and cannot take a value)
            cmd.env("TMPDIR", &tmp);
            cmd.env("FST_VERIF_SCHED_SEED", c.sched.to_string());
            if force {
                cmd.arg("--force");
            }
        }
        None => {
            cmd.arg("--sorted");
        }
    }
    cmd.env("FST_VERIF_TRACE", &trace);
    let desc = || match cfg {
        Some(c) if c.threads == 0 => format!("default options sched-seed={}{}", c.sched, piped.map(|n| format!(" input #{} on stdin", n)).unwrap_or_default()),
        Some(c) => format!("batch-size={} fd-limit={} threads={} sched-seed={}{}", c.batch, c.fd, c.threads, c.sched, piped.map(|n| format!(" input #{} on stdin", n)).unwrap_or_default() + if force { " --force over an existing 70000-byte output" } else { "" }),
        None => "--sorted".to_string(),
    };
    // normal runs take milliseconds; one that is still running after 45 seconds has hung
    let stdin_data = match piped {
        Some(n) => Some(std::fs::read(&inputs[n]).map_err(|e| Fail::new("harness-io", e.to_string()))?),
        None => None,
    };
    cmd.stdin(if stdin_data.is_some() { std::process::Stdio::piped() } else { std::process::Stdio::null() });
    let mut child = cmd.stdout(std::process::Stdio::null()).stderr(std::process::Stdio::piped()).spawn().map_err(|e| Fail::new("harness-io", format!("cannot run {:?}: {}", fst_bin(), e)))?;
    let feeder = stdin_data.map(|data| {
        let mut pipe = child.stdin.take().expect("piped stdin");
        std::thread::spawn(move || {
            use std::io::Write;
            let _ = pipe.write_all(&data);
            // dropping the pipe closes it: end of input
        })
    });
    let t0 = std::time::Instant::now();
    let limit = std::time::Duration::from_secs(std::env::var("VERIF_CLI_TIMEOUT_S").ok().and_then(|s| s.parse().ok()).unwrap_or(45));
    loop {
        match child.try_wait() {
            Ok(Some(_)) => break,
            Ok(None) => {
                if t0.elapsed() > limit {
                    let _ = child.kill();
                    let _ = child.wait();
                    return Err(Fail::new("cli-hang", format!("fst did not finish within {} s ({}); input {}", limit.as_secs(), desc(), case.show())));
                }
                std::thread::sleep(std::time::Duration::from_millis(2));
            }
            Err(e) => return Err(Fail::new("harness-io", e.to_string())),
        }
    }
    if let Some(h) = feeder {
        let _ = h.join();
    }
    let res = child.wait_with_output().map_err(|e| Fail::new("harness-io", e.to_string()))?;
    if !res.status.success() {
        return Err(Fail::new("cli-failed", format!("fst exited with {:?} ({}): {}; input {}", res.status.code(), desc(), String::from_utf8_lossy(&res.stderr).trim(), case.show())));
    }
    let bytes = std::fs::read(&out).map_err(|_| Fail::new("cli-no-output", format!("fst exited 0 but wrote no output file ({}); input {}", desc(), case.show())))?;
    let t = std::fs::read_to_string(&trace).unwrap_or_default();
    let mut info = RunInfo { kv_batches: 0, union_batches: 0, generations: 0, grouping: String::new() };
    let mut groups: Vec<String> = vec![];
    for line in t.lines() {
        if line.starts_with("kv ") {
            info.kv_batches += 1;
        } else if let Some(rest) = line.strip_prefix("union ") {
            info.union_batches += 1;
            let gen: u64 = rest.split_whitespace().find_map(|t| t.strip_prefix("gen=")).and_then(|g| g.parse().ok()).unwrap_or(0);
            info.generations = info.generations.max(gen + 1);
            groups.push(rest.to_string());
        }
    }
    groups.sort();
    info.grouping = groups.join(";");
    Ok((bytes, info))
}

pub fn check(case: &Case, rec: &mut Rec) -> CheckResult {
    static COUNTER: std::sync::atomic::AtomicU64 = std::sync::atomic::AtomicU64::new(0);
    let id = COUNTER.fetch_add(1, std::sync::atomic::Ordering::SeqCst);
    let dir = PathBuf::from(format!("{}/work/c19/{}-{}", crate::engine::out_dir(), std::process::id(), id));
    std::fs::create_dir_all(&dir).map_err(|e| Fail::new("harness-io", e.to_string()))?;
    let _guard = Dir(dir.clone());
    let mut inputs = vec![];
    for (i, f) in case.files.iter().enumerate() {
        let p = dir.join(format!("in-{}.txt", i));
        let mut s = String::new();
        for (j, (k, v)) in f.iter().enumerate() {
            if case.mode == Mode::Set {
                s.push_str(k);
            } else {
                s.push_str(&format!("{},{}", csv_field(k), v));
            }
            let last = j + 1 == f.len();
            match case.eol {
                1 => s.push_str("\r\n"),
                2 if last => {}
                _ => s.push('\n'),
            }
        }
        std::fs::write(&p, s).map_err(|e| Fail::new("harness-io", e.to_string()))?;
        inputs.push(p);
    }
    let model = case.model();
    let nrows = case.rows().len();
    let mut first: Option<(Vec<u8>, Cfg)> = None;
    let mut groupings = std::collections::BTreeSet::new();
    let mut nontrivial_seen = false;
    // repeated keys within / across batches, for classification
    let mut counts: BTreeMap<&str, u32> = BTreeMap::new();
    for (k, _) in case.rows() {
        *counts.entry(k).or_insert(0) += 1;
    }
    let has_repeats = counts.values().any(|&c| c > 1);
    for (i, cfg) in case.cfgs.iter().enumerate() {
        rec.eval();
        let (bytes, info) = run_cli(&dir, case, &inputs, Some(*cfg), i)?;
        let desc = format!("batch-size={} fd-limit={} threads={} sched-seed={}", cfg.batch, cfg.fd, cfg.threads, cfg.sched);
        let f = match fst::raw::Fst::new(&bytes[..]) {
            Ok(f) => f,
            Err(e) => vfail!("cli-output-invalid", "output does not open ({}): {:?}; input {}", desc, e, case.show()),
        };
        if let Err(e) = f.verify() {
            vfail!("cli-output-invalid", "output does not verify ({}): {:?}; input {}", desc, e, case.show());
        }
        let got = gen::collect_stream(f.stream());
        if got != model {
            // classify against the two mechanisms seen on the pinned tree
            let nbatches = (nrows as u32 + cfg.batch - 1) / cfg.batch.max(1);
            let sig = if case.mode == Mode::Min && nbatches >= 2 && got.iter().all(|p| p.1 == 0) && got.len() == model.len() {
                "min-folds-from-zero"
            } else if has_repeats && got.len() == model.len() && case.mode != Mode::Set {
                "repeated-key-values-not-merged"
            } else {
                "cli-content"
            };
            vfail!(sig, "{} yields {} but the {} of the input is {} ({}); input {}", if case.mode == Mode::Set { "fst set" } else { "fst map" }, crate::oracle::keys_show(&got), case.mode.name(), crate::oracle::keys_show(&model), desc, case.show());
        }
        vensure!(f.len() == model.len(), "cli-content", "output len()={} but {} distinct keys ({})", f.len(), model.len(), desc);
        match &first {
            None => first = Some((bytes.clone(), *cfg)),
            Some((b0, c0)) => {
                vensure!(&bytes == b0, "cli-bytes-differ", "outputs differ between configurations {:?} and {:?} for the same input ({} vs {} bytes); input {}", c0, cfg, b0.len(), bytes.len(), case.show());
            }
        }
        if !rec.muted {
            if info.kv_batches >= 2 {
                rec.class("at_least_2_batches");
            }
            if info.generations >= 1 {
                rec.class("at_least_1_union_generation");
            }
            if info.generations >= 2 {
                rec.class("at_least_2_union_generations");
            }
            rec.class(&format!("threads_{}", cfg.threads));
            if case.stdin > 0 {
                rec.class("input_on_stdin");
            }
            if case.files.len() >= 2 && case.files[..case.files.len() - 1].iter().any(|f| f.is_empty()) {
                rec.class("empty_file_before_the_last");
            }
            if case.rows().iter().any(|(k, _)| k.ends_with('\r')) {
                rec.class("key_ending_in_cr_on_unterminated_last_line");
            }
            if case.rows().iter().any(|(k, _)| k.contains('\u{0}')) {
                rec.class("key_with_nul_byte");
            }
            groupings.insert(info.grouping.clone());
            if info.kv_batches >= 2 && info.generations >= 1 && has_repeats {
                nontrivial_seen = true;
                rec.nontrivial(H::new().b(case.show().as_bytes()).u(cfg.batch as u64).u(cfg.fd as u64).u(cfg.threads as u64).u(cfg.sched).get());
            }
        }
    }
    // unique keys: byte-identical to a sorted build and to an in-harness build
    if !has_repeats && !case.cfgs.is_empty() {
        rec.eval();
        let mut sorted_rows: Vec<(String, u64)> = case.rows().into_iter().cloned().collect();
        sorted_rows.sort();
        let sp = dir.join("sorted-in.txt");
        let mut s = String::new();
        // a key ending in '\r' can only stand on an unterminated last line
        let n_sorted = sorted_rows.len();
        let mut expressible = true;
        for (j, (k, v)) in sorted_rows.iter().enumerate() {
            if case.mode == Mode::Set {
                s.push_str(k);
            } else {
                s.push_str(&format!("{},{}", csv_field(k), v));
            }
            if k.ends_with('\r') && case.mode == Mode::Set {
                if j + 1 == n_sorted {
                    continue;
                }
                expressible = false;
            }
            s.push('\n');
        }
        std::fs::write(&sp, s).map_err(|e| Fail::new("harness-io", e.to_string()))?;
        let harness = gen::build_plain(&model, false).map_err(|e| Fail::new("build-error", e))?;
        let sorted_bytes = if expressible { run_cli(&dir, case, &[sp], None, 9999)?.0 } else { harness.clone() };
        if let Some((b0, c0)) = &first {
            vensure!(b0 == &sorted_bytes, "cli-unsorted-vs-sorted", "unsorted build ({:?}) differs from `--sorted` on the sorted data ({} vs {} bytes); input {}", c0, b0.len(), sorted_bytes.len(), case.show());
            vensure!(b0 == &harness, "cli-unsorted-vs-library", "unsorted build ({:?}) differs from a library build of the same data; input {}", c0, case.show());
        }
        rec.class("unique_keys_compared_with_sorted_build");
    } else if !rec.muted && has_repeats {
        rec.class("has_repeated_keys");
    }
    if !rec.muted {
        rec.class_n("distinct_union_groupings_observed", groupings.len() as u64);
        if nontrivial_seen && rec.wants_sample() {
            rec.sample(json!({"input": case.show(), "configs": case.cfgs.len(), "model": crate::oracle::keys_show(&model), "distinct_groupings": groupings.len()}));
        }
    }
    let _ = show;
    Ok(())
}

fn key_strategy() -> impl Strategy<Value = String> {
    prop_oneof![
        6 => "[a-c]{1,3}",
        2 => "[a-z0-9]{1,6}",
        1 => "[a-c ,\"]{1,4}".prop_filter("no leading/trailing space-only ambiguity", |s| !s.trim().is_empty()),
        1 => "(é|ü|☃)[a-b]{0,2}",
        // keys around 8 bytes sharing long prefixes, and keys that differ only by trailing
        // NUL / control bytes (lines may contain any byte but the line terminator)
        1 => "[ab]{6,10}",
        1 => "[ab]{0,2}\\x00{1,3}".prop_map(|s| s.replace("\\x00", "\u{0}")).prop_filter("non-empty", |s| !s.is_empty()),
        1 => "[ab]{0,2}[\\x01\\x7f\t]{1,2}",
        // carriage returns inside a key, and at its end (kept only where the input format can
        // express it: on the last line of a file that does not end in a newline)
        1 => "[ab]{1,2}\r[ab]{0,2}",
    ]
}

fn cfgs_strategy(nrows: usize) -> impl Strategy<Value = Vec<Cfg>> {
    let n = nrows.max(1) as u32;
    let batch = prop_oneof![3 => Just(1u32), 3 => Just(2u32), 2 => Just(3u32), 1 => Just(5u32), 1 => Just(n), 1 => Just(n + 1), 1 => 1u32..=n.max(2)];
    let fd = prop_oneof![4 => Just(2u32), 2 => Just(3u32), 1 => Just(5u32), 1 => Just(15u32)];
    let threads = prop_oneof![2 => Just(1u32), 2 => Just(2u32), 2 => Just(3u32), 1 => Just(8u32), 1 => Just(16u32), 1 => Just(0u32)];
    proptest::collection::vec((batch, fd, threads, any::<u64>()).prop_map(|(batch, fd, threads, sched)| Cfg { batch, fd, threads, sched }), 3..=5)
}

pub fn case_strategy() -> impl Strategy<Value = Case> {
    (
        prop_oneof![2 => Just(Mode::Set), 3 => Just(Mode::Sum), 2 => Just(Mode::Max), 2 => Just(Mode::Min)],
        prop_oneof![6 => proptest::collection::vec((key_strategy(), 0u64..1000, 0u8..4), 1..14), 1 => proptest::collection::vec((key_strategy(), 0u64..1000, 0u8..4), 40..90)],
        1usize..=3,
        prop::bool::weighted(0.7),
    )
        .prop_flat_map(|(mode, raw, nfiles, repeats)| {
            // rows: keys, optionally with repeats (same value or different)
            let mut rows: Vec<(String, u64)> = vec![];
            let mut seen = std::collections::BTreeSet::new();
            for (k, v, r) in raw {
                let fresh = seen.insert(k.clone());
                if !fresh && !repeats {
                    continue;
                }
                rows.push((k.clone(), v));
                if repeats && r >= 2 {
                    // repeat: adjacent (same batch for batch-size >= 2) with equal or different value
                    rows.push((k.clone(), if r == 2 { v } else { v + 1 }));
                }
            }
            let mut files: Vec<Vec<(String, u64)>> = vec![vec![]; nfiles];
            let per = (rows.len() + nfiles - 1) / nfiles;
            for (i, r) in rows.into_iter().enumerate() {
                files[(i / per.max(1)).min(nfiles - 1)].push(r);
            }
            let n: usize = files.iter().map(|f| f.len()).sum();
            (cfgs_strategy(n), proptest::collection::vec(0usize..8, 0..=2), prop_oneof![4 => Just(0u8), 1 => Just(1u8), 1 => Just(2u8)], prop::bool::weighted(0.15), prop_oneof![3 => Just(0u8), 1 => 1u8..=3]).prop_map(move |(cfgs, empties, eol, bigvals, stdin)| {
                let mut files = files.clone();
                // input files without any row, anywhere in the list
                for e in empties {
                    let at = e % (files.len() + 1);
                    files.insert(at, vec![]);
                }
                // a key ending in '\r' followed by a line terminator would read as CRLF
                for f in files.iter_mut() {
                    let n = f.len();
                    for (j, r) in f.iter_mut().enumerate() {
                        if r.0.ends_with('\r') && !(j + 1 == n && eol == 2 && mode == Mode::Set) {
                            r.0.push('x');
                        }
                    }
                }
                if bigvals {
                    // values beyond 32 bits (sums of <= 40 rows cannot overflow)
                    for f in files.iter_mut() {
                        for r in f.iter_mut() {
                            r.1 = (r.1 << 40) | (r.1 << 16) | r.1;
                        }
                    }
                }
                Case { mode, files, cfgs, eol, stdin }
            })
        })
}

pub fn run(e: &Engine) {
    e.set_rule("cases are (input multiset of lines / CSV rows in 1..3 files, one of which may arrive on standard input as `-`, merge mode set/sum/max/min, 3..5 configurations of batch-size x fd-limit x threads x schedule seed); the fst binary (hooks on) is run as a child process for each configuration; oracle: exit status 0, output exists, opens, verifies, content equals the BTreeMap fold of all rows under the merge mode, outputs byte-identical across configurations; for inputs without repeated keys additionally byte-identical to `--sorted` on the sorted data and to a library build; evaluations counts CLI runs; non-trivial = run with >= 2 batches and >= 1 union generation (from the trace hook) on an input with a repeated key; distinct by (input, configuration)");
    e.assume("interleavings are perturbed by seeded delays and thread counts, not enumerated; keys are non-empty, without newline; values small enough that sums cannot overflow; fd-limit >= 2");
    if !fst_bin().exists() {
        e.inconclusive(format!("fst binary {:?} not built", fst_bin()));
        return;
    }
    // fixed cases aimed at the mechanisms: repeats inside one batch, across batches, --min with several batches
    let mk = |mode: Mode, files: Vec<Vec<(&str, u64)>>, cfgs: Vec<(u32, u32, u32)>| Case {
        mode,
        files: files.into_iter().map(|f| f.into_iter().map(|(k, v)| (k.to_string(), v)).collect()).collect(),
        cfgs: cfgs.into_iter().enumerate().map(|(i, (batch, fd, threads))| Cfg { batch, fd, threads, sched: i as u64 }).collect(),
        eol: 0,
        stdin: 0,
    };
    let fixed = vec![
        mk(Mode::Sum, vec![vec![("a", 1), ("b", 2), ("c", 3), ("d", 4), ("e", 5)]], vec![(1, 2, 1), (2, 2, 3), (5, 15, 16), (6, 3, 2)]),
        mk(Mode::Set, vec![vec![("b", 0), ("a", 0), ("c", 0), ("a", 0)], vec![("d", 0), ("b", 0)]], vec![(1, 2, 2), (3, 2, 1), (100, 15, 8)]),
        mk(Mode::Max, vec![vec![("x", 5), ("y", 1)], vec![("x", 9), ("z", 2)], vec![("y", 7)]], vec![(1, 2, 1), (2, 3, 2), (1, 15, 16)]),
    ];
    e.run_list("fixed-inputs", &fixed, |c| c.to_json(), check);
    e.max_shrink_iters.store(120, std::sync::atomic::Ordering::SeqCst);
    e.run_prop("random-inputs-x-configurations", e.tier.pick(1500, 40_000), case_strategy, |c| c.to_json(), check);
    for cls in ["at_least_2_batches", "at_least_1_union_generation", "at_least_2_union_generations", "unique_keys_compared_with_sorted_build", "has_repeated_keys", "input_on_stdin", "empty_file_before_the_last", "key_with_nul_byte"] {
        e.require_class(cls, 1);
    }
}

pub fn replay(_sub: &str, case: &Value) -> Option<CheckResult> {
    let mut rec = Rec::new(0);
    // outcomes may depend on how the workers interleave: the saved case is run up to 30 times
    // and the first failure is reported
    Some(crate::engine::guarded(|| {
        let c = Case::from_json(case).ok_or_else(bad)?;
        for _ in 0..30 {
            check(&c, &mut rec)?;
        }
        Ok(())
    }))
}
