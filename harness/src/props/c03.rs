//! C03 Range streams return exactly the keys within the bounds, in order.

use proptest::prelude::*;
use serde_json::{json, Value};

use crate::engine::{CheckResult, Engine, Rec, H};
use crate::gen::{self, FstInput};
use crate::oracle::{self, Bounds, Kind};
use crate::props::c01::bad;

#[derive(Clone, Debug)]
pub struct Case {
    pub input: FstInput,
    pub bounds: Bounds,
}

impl Case {
    pub fn to_json(&self) -> Value {
        json!({"input": self.input.to_json(), "bounds": oracle::bounds_json(&self.bounds)})
    }
    pub fn from_json(v: &Value) -> Option<Case> {
        Some(Case { input: FstInput::from_json(v.get("input")?)?, bounds: oracle::bounds_from_json(v.get("bounds")?)? })
    }
}

fn classify(c: &Case, rec: &mut Rec) {
    if rec.muted {
        return;
    }
    let model = c.input.model();
    let (lo, hi) = oracle::effective(&c.bounds);
    let absent = c.bounds.iter().any(|(_, k)| !model.contains_key(k));
    if c.bounds.len() > 2 || (c.bounds.len() == 2 && (lo.is_none() || hi.is_none())) {
        rec.class("same_kind_set_twice");
    }
    if let (Some((_, l)), Some((_, h))) = (lo, hi) {
        if l > h {
            rec.class("inverted_range");
        }
    }
    if c.bounds.iter().any(|(_, k)| k.is_empty()) {
        rec.class("empty_string_bound");
    }
    if !c.input.pairs.is_empty() && !c.bounds.is_empty() && absent {
        let mut h = H::new().u(c.input.hash());
        for (k, key) in &c.bounds {
            h = h.u(*k as u64).b(key);
        }
        rec.nontrivial(h.get());
        if rec.wants_sample() {
            rec.sample(json!({"fst": c.input.sample(), "range": oracle::bounds_show(&c.bounds)}));
        }
    }
}

pub fn check(c: &Case, full: bool, rec: &mut Rec) -> CheckResult {
    rec.eval();
    let built = match gen::build(&c.input) {
        Ok(b) => b,
        Err(e) => vfail!("build-error", "valid input rejected: {}", e),
    };
    classify(c, rec);
    oracle::check_range(&built.bytes, &c.input.pairs, &c.bounds, full)
}

/// One large file with ranges around a sample of its keys.
fn check_big(r: &gen::Recipe, rec: &mut Rec) -> CheckResult {
    let pairs = r.pairs();
    let set = r.values == 0;
    let bytes = gen::build_plain(&pairs, set).map_err(|m| crate::engine::Fail::new("build-error", m))?;
    if bytes.len() > 1 << 16 {
        rec.class("file_over_64KiB");
    }
    // narrow windows around sampled keys, with present and absent bound keys of varying length
    let n = pairs.len();
    for j in 0..200usize {
        rec.eval();
        let i = (crate::engine::mix(r.seed, j as u64) % n as u64) as usize;
        let w = 1 + (j % 40);
        let lo = &pairs[i].0;
        let hi = &pairs[(i + w).min(n - 1)].0;
        let mut lo2 = lo.clone();
        let mut hi2 = hi.clone();
        match j % 4 {
            0 => {}
            1 => {
                lo2.push(0);
                hi2.extend_from_slice(&[0xff; 20]); // bound far longer than any key
            }
            2 => {
                lo2.truncate(lo.len() / 2);
                hi2.truncate(hi.len() - 1);
            }
            _ => {
                lo2.extend_from_slice(b"-a-long-tail-beyond-sixteen-bytes");
                if let Some(l) = hi2.last_mut() {
                    *l = l.wrapping_add(1);
                }
            }
        }
        let b: Bounds = vec![(if j % 2 == 0 { Kind::Ge } else { Kind::Gt }, lo2), (if j % 3 == 0 { Kind::Le } else { Kind::Lt }, hi2)];
        // the model filter over the whole content (a windowed filter would be
        // unsound: a truncated lower bound reaches far before the sampled key)
        let want = oracle::model_range(&pairs, &b);
        let f = fst::raw::Fst::new(&bytes[..]).map_err(|e| crate::engine::Fail::new("open-failed", format!("{:?}", e)))?;
        let got = gen::collect_stream(oracle::apply_raw(f.range(), &b));
        vensure!(got == want, "range-mismatch", "large file ({} bytes): Fst::range(){} yields {} but the model gives {}", bytes.len(), oracle::bounds_show(&b), oracle::keys_show(&got), oracle::keys_show(&want));
    }
    rec.nontrivial(H::new().u(r.n).u(r.seed).u(0x03).get());
    Ok(())
}

pub fn run(e: &Engine) {
    e.set_rule("cases are (built FST, history of 0..4 ge/gt/le/lt calls); bound keys are constructed from the model (keys, prefixes, +/- one byte, divergent at every depth, empty, random) or enumerated from the 341 strings over {`,a,b,c} of length <= 4; non-trivial = non-empty FST, at least one bound set, and some bound key is not itself a key; distinct by (FST hash, bound history) for generated cases and by construction (injective index -> case map) for the enumerated grid");
    e.assume("the model filter lo </<= k </<= hi with the last lower and last upper setting is the specification");
    // exhaustive: subsets of U3 x all (lower kind, lower key, upper kind, upper key)
    let bu = gen::universe(b"`abc", 4); // 341 strings
    let nb = bu.len() as u64; // 341
    let nside = 1 + 2 * nb; // none + {incl, excl} x key
    let nsub: u64 = e.tier.pick(300, 32768);
    let offset = crate::engine::mix(e.seed, 77) & 0x7fff;
    e.run_enum("u3-subsets-x-all-bound-pairs", nsub * nside, |idx, rec| {
        let u3 = gen::u3();
        let si = idx / nside;
        // injective map from the sample index to a subset mask
        let mask = (si.wrapping_mul(12347) + offset) & 0x7fff;
        let li = idx % nside;
        let keys = gen::subset(&u3, mask);
        let pairs = gen::enum_values(1, &keys);
        let input = FstInput::new(gen::Front::MapBuilder, Some((2, 2)), pairs);
        let built = match gen::build(&input) {
            Ok(b) => b,
            Err(m) => return Err((input.to_json(), crate::engine::Fail::new("build-error", m))),
        };
        let model = input.model();
        for ui in 0..nside {
            let mut bounds: Bounds = vec![];
            if li > 0 {
                let k = if (li - 1) % 2 == 0 { Kind::Ge } else { Kind::Gt };
                bounds.push((k, bu[((li - 1) / 2) as usize].clone()));
            }
            if ui > 0 {
                let k = if (ui - 1) % 2 == 0 { Kind::Le } else { Kind::Lt };
                bounds.push((k, bu[((ui - 1) / 2) as usize].clone()));
            }
            rec.eval();
            if !input.pairs.is_empty() && bounds.iter().any(|(_, k)| !model.contains_key(k)) {
                rec.nontrivial_by_construction();
            }
            if let Err(f) = crate::engine::guarded(|| oracle::check_range(&built.bytes, &input.pairs, &bounds, false)) {
                let c = Case { input: input.clone(), bounds };
                return Err((c.to_json(), f));
            }
        }
        Ok(())
    });
    e.run_prop(
        "random-fsts-bound-histories",
        e.tier.pick(500_000, 5_000_000),
        || {
            (gen::fst_input(30, 200), oracle::bounds_sel_strategy(4)).prop_map(|(input, sels)| {
                let bounds = oracle::resolve_bounds(&sels, &input.pairs);
                Case { input, bounds }
            })
        },
        |c| c.to_json(),
        |c, rec| check(c, true, rec),
    );
    let big: Vec<gen::Recipe> = (0..e.tier.pick(6u64, 24)).map(|i| gen::Recipe { kind: (1 + i % 3) as u8, n: 30_000 + i * 23_000, seed: crate::engine::mix(e.seed, 300 + i), fanout: 3 + (i % 6) as u8, keylen: 10 + (i % 9) as u8, values: (i % 4) as u8 }).collect();
    e.run_list("large-files-sampled-ranges", &big, |r| r.to_json(), |r, rec| check_big(r, rec));
    e.require_class("file_over_64KiB", 1);
    e.require_class("same_kind_set_twice", 1);
    e.require_class("inverted_range", 1);
    e.require_class("empty_string_bound", 1);
}

pub fn replay(sub: &str, case: &Value) -> Option<CheckResult> {
    let mut rec = Rec::new(0);
    if sub == "large-files-sampled-ranges" {
        return Some(crate::engine::guarded(|| check_big(&gen::Recipe::from_json(case).ok_or_else(bad)?, &mut rec)));
    }
    Some(crate::engine::guarded(|| check(&Case::from_json(case).ok_or_else(bad)?, true, &mut rec)))
}
