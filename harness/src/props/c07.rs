//! C07 Output bytes do not depend on how the sink accepts writes.

use std::io::{self, Write};

use proptest::prelude::*;
use serde_json::{json, Value};

use crate::engine::{hex, pairs_from_json, pairs_json, unhex, CheckResult, Engine, Fail, Rec, H};
use crate::gen::{self, Pairs};
use crate::props::c01::bad;
use crate::sinks::{self, Act, Counted, ScriptSink};

#[derive(Clone, Debug)]
pub enum SinkSpec {
    Script { script: Vec<Act>, then_cap: usize },
    Buffered { capacity: usize, script: Vec<Act>, then_cap: usize },
    Prefilled { prefix: Vec<u8> },
    Cursor { junk: usize, pos: usize },
    MutVec,
}

#[derive(Clone, Debug)]
pub struct Case {
    pub pairs: Pairs,
    pub set: bool,
    pub sink: SinkSpec,
}

impl Case {
    fn to_json(&self) -> Value {
        let sink = match &self.sink {
            SinkSpec::Script { script, then_cap } => json!({"script": sinks::script_json(script), "then_cap": then_cap.to_string()}),
            SinkSpec::Buffered { capacity, script, then_cap } => json!({"bufwriter": capacity, "script": sinks::script_json(script), "then_cap": then_cap.to_string()}),
            SinkSpec::Prefilled { prefix } => json!({"prefilled": hex(prefix)}),
            SinkSpec::Cursor { junk, pos } => json!({"cursor": [junk, pos]}),
            SinkSpec::MutVec => json!("mutvec"),
        };
        json!({"pairs": pairs_json(&self.pairs), "set": self.set, "sink": sink})
    }
    fn from_json(v: &Value) -> Option<Case> {
        let s = v.get("sink")?;
        let cap = |s: &Value| -> Option<usize> { s.get("then_cap")?.as_str()?.parse().ok() };
        let sink = if s.as_str() == Some("mutvec") {
            SinkSpec::MutVec
        } else if let Some(c) = s.get("bufwriter") {
            SinkSpec::Buffered { capacity: c.as_u64()? as usize, script: sinks::script_from_json(s.get("script")?)?, then_cap: cap(s)? }
        } else if let Some(p) = s.get("prefilled") {
            SinkSpec::Prefilled { prefix: unhex(p.as_str()?)? }
        } else if let Some(c) = s.get("cursor") {
            SinkSpec::Cursor { junk: c.get(0)?.as_u64()? as usize, pos: c.get(1)?.as_u64()? as usize }
        } else {
            SinkSpec::Script { script: sinks::script_from_json(s.get("script")?)?, then_cap: cap(s)? }
        };
        Some(Case { pairs: pairs_from_json(v.get("pairs")?)?, set: v.get("set")?.as_bool()?, sink })
    }
}

/// Run the build on `w`, checking bytes_written against the sink's own count
/// after every builder call. Returns the sink.
fn drive<W: Write>(w: W, pairs: &Pairs, set: bool) -> Result<Counted<W>, Fail> {
    let w = Counted { inner: w, accepted: 0 };
    let mut b = match fst::raw::Builder::new(w) {
        Ok(b) => b,
        Err(e) => return Err(Fail::new("io-error", format!("Builder::new failed on a sink that never fails: {:?}", e))),
    };
    let chk = |b: &fst::raw::Builder<Counted<W>>, at: &str| -> Result<(), Fail> {
        let acc = b.get_ref().accepted;
        if b.bytes_written() != acc {
            return Err(Fail::new("bytes-written", format!("bytes_written()={} but the sink has accepted {} bytes ({})", b.bytes_written(), acc, at)));
        }
        Ok(())
    };
    chk(&b, "after new")?;
    for (i, (k, v)) in pairs.iter().enumerate() {
        let r = if set { b.add(k) } else { b.insert(k, *v) };
        if let Err(e) = r {
            return Err(Fail::new("io-error", format!("insert #{} failed on a sink that never fails: {:?}", i, e)));
        }
        chk(&b, &format!("after insert #{}", i))?;
    }
    match b.into_inner() {
        Ok(w) => Ok(w),
        Err(e) => Err(Fail::new("io-error", format!("finish failed on a sink that never fails: {:?}", e))),
    }
}

pub fn check(c: &Case, rec: &mut Rec) -> CheckResult {
    rec.eval();
    // set builds carry no values
    let normalised;
    let c = if c.set && c.pairs.iter().any(|p| p.1 != 0) {
        normalised = Case { pairs: c.pairs.iter().map(|p| (p.0.clone(), 0)).collect(), set: true, sink: c.sink.clone() };
        &normalised
    } else {
        c
    };
    let reference = gen::build_plain(&c.pairs, c.set).map_err(|e| Fail::new("build-error", e))?;
    let mut disturbed_body = false;
    let mut disturbed_any = false;
    let got: Vec<u8> = match &c.sink {
        SinkSpec::Script { script, then_cap } => {
            let w = drive(ScriptSink::new(script.clone(), *then_cap), &c.pairs, c.set)?;
            let s = w.inner;
            vensure!(s.flushes >= 1 && s.flushed_len == s.data.len(), "not-flushed", "finish returned Ok but the sink was not flushed after the last write ({} of {} bytes flushed)", s.flushed_len, s.data.len());
            disturbed_any = !s.short_or_intr_at.is_empty();
            disturbed_body = s.short_or_intr_at.iter().any(|&o| o >= 16);
            s.data
        }
        SinkSpec::Buffered { capacity, script, then_cap } => {
            let inner = ScriptSink::new(script.clone(), *then_cap);
            let w = drive(io::BufWriter::with_capacity(*capacity, inner), &c.pairs, c.set)?;
            let s = match w.inner.into_inner() {
                Ok(s) => s,
                Err(e) => vfail!("io-error", "BufWriter::into_inner failed: {:?}", e.error()),
            };
            disturbed_any = !s.short_or_intr_at.is_empty();
            disturbed_body = s.short_or_intr_at.iter().any(|&o| o >= 16);
            rec.class("sink:bufwriter");
            s.data
        }
        SinkSpec::Prefilled { prefix } => {
            let w = drive(prefix.clone(), &c.pairs, c.set)?;
            let data = w.inner;
            vensure!(data.len() >= prefix.len() && data[..prefix.len()] == prefix[..], "prefix-clobbered", "bytes already held by the sink were modified");
            rec.class("sink:prefilled_vec");
            data[prefix.len()..].to_vec()
        }
        SinkSpec::Cursor { junk, pos } => {
            let pos = (*pos).min(*junk);
            let mut cur = io::Cursor::new(vec![0xAAu8; *junk]);
            cur.set_position(pos as u64);
            let w = drive(cur, &c.pairs, c.set)?;
            let data = w.inner.into_inner();
            vensure!(data[..pos].iter().all(|&b| b == 0xAA), "prefix-clobbered", "bytes before the cursor position were modified");
            rec.class("sink:cursor");
            let end = (pos + reference.len()).min(data.len());
            data[pos..end].to_vec()
        }
        SinkSpec::MutVec => {
            let mut v: Vec<u8> = vec![];
            drive(&mut v, &c.pairs, c.set)?;
            rec.class("sink:&mut_vec");
            v
        }
    };
    if got != reference {
        let at = got.iter().zip(reference.iter()).position(|(a, b)| a != b).unwrap_or(got.len().min(reference.len()));
        vfail!(
            "bytes-differ",
            "sink received {} bytes, in-memory build has {}; first difference at offset {} (of {}); keys {}",
            got.len(),
            reference.len(),
            at,
            reference.len(),
            crate::oracle::keys_show(&c.pairs)
        );
    }
    let f = fst::raw::Fst::new(&got[..]).map_err(|e| Fail::new("open-failed", format!("sink bytes do not open: {:?}", e)))?;
    if let Err(e) = f.verify() {
        vfail!("verify-failed", "sink bytes do not verify: {:?}", e);
    }
    if c.pairs.len() <= 64 {
        crate::oracle::query_suite(&got, &c.pairs)?;
    }
    if !rec.muted {
        if disturbed_any {
            rec.class("short_write_or_interrupt");
        }
        if disturbed_body {
            rec.class("short_write_or_interrupt_in_nodes_or_footer");
        }
        if disturbed_body && c.pairs.len() >= 2 {
            rec.nontrivial(H::new().pairs(&c.pairs).b(serde_json::to_string(&c.to_json()["sink"]).unwrap().as_bytes()).get());
            if rec.wants_sample() {
                rec.sample(json!({"keys": crate::oracle::keys_show(&c.pairs), "sink": c.to_json()["sink"]}));
            }
        }
    }
    Ok(())
}

fn script_strategy() -> impl Strategy<Value = Vec<Act>> {
    let act = prop_oneof![
        4 => (1usize..6).prop_map(Act::Accept),
        2 => (1usize..40).prop_map(Act::Accept),
        2 => Just(Act::AllButOne),
        2 => Just(Act::Interrupted),
        3 => Just(Act::Accept(usize::MAX)),
    ];
    proptest::collection::vec(act, 0..120)
}

fn sink_strategy() -> impl Strategy<Value = SinkSpec> {
    let cap = prop_oneof![3 => Just(usize::MAX), 2 => 1usize..20];
    prop_oneof![
        6 => (script_strategy(), cap.clone()).prop_map(|(script, then_cap)| SinkSpec::Script { script, then_cap }),
        3 => (prop_oneof![Just(1usize), Just(7), Just(8192)], script_strategy(), cap).prop_map(|(capacity, script, then_cap)| SinkSpec::Buffered { capacity, script, then_cap }),
        1 => proptest::collection::vec(any::<u8>(), 0..50).prop_map(|prefix| SinkSpec::Prefilled { prefix }),
        1 => (0usize..200, 0usize..200).prop_map(|(junk, pos)| SinkSpec::Cursor { junk, pos }),
        1 => Just(SinkSpec::MutVec),
    ]
}

/// Number of write calls of a build into a sink accepting at most `cap` bytes per call.
fn count_writes_capped(pairs: &Pairs, set: bool, cap: usize) -> u64 {
    let s = ScriptSink::new(vec![], cap);
    drive(s, pairs, set).map(|w| w.inner.writes).unwrap_or(0)
}

/// Number of write calls a plain build makes.
fn count_writes(pairs: &Pairs, set: bool) -> u64 {
    let s = ScriptSink::new(vec![], usize::MAX);
    drive(s, pairs, set).map(|w| w.inner.writes).unwrap_or(0)
}

/// bytes_written() against the sink after every call, with a sink that accepts a few bytes per
/// call and fails at write index i, for every i.
fn check_faulted(pairs: &Pairs, set: &bool, rec: &mut Rec) -> CheckResult {
    use crate::sinks::{FaultKind, FaultSink};
    for cap in [1usize, 2, 3, 5] {
    let w = count_writes_capped(pairs, *set, cap);
    for i in 0..w {
        for kind in [FaultKind::Other, FaultKind::OkZero] {
            rec.eval();
            let (sink, st) = FaultSink::new(Some(i), false, kind, cap);
            let mut b = match fst::raw::Builder::new(sink) {
                Ok(b) => b,
                Err(_) => continue, // fault inside new(): no builder to inspect
            };
            for (k, v) in pairs {
                let r = if *set { b.add(k) } else { b.insert(k, *v) };
                let accepted = st.borrow().data.len() as u64;
                vensure!(b.bytes_written() == accepted, "bytes-written-after-fault", "bytes_written()={} but the sink has accepted {} bytes after insert returned {} (sink accepts a few bytes per call and fails at write #{}); keys {}", b.bytes_written(), accepted, if r.is_ok() { "Ok" } else { "Err" }, i, crate::oracle::keys_show(pairs));
                if r.is_err() {
                    rec.class("bytes_written_checked_after_failed_insert");
                    if accepted > st.borrow().data.len() as u64 - 0 && b.bytes_written() > 0 {
                        rec.class("failed_insert_after_partial_acceptance");
                    }
                    break;
                }
            }
        }
    }
    }
    rec.nontrivial(H::new().pairs(pairs).u(0xfa).get());
    Ok(())
}

pub fn run(e: &Engine) {
    crate::crcref::self_test();
    e.set_rule("cases are (key sequence, sink behaviour): scripted sinks following a script of Accept(n>=1) / all-but-one / Interrupted actions then a fixed cap, BufWriter (capacity 1, 7, 8192) over such sinks, pre-filled Vec, Cursor positioned mid-buffer, &mut Vec; exhaustively for small FSTs every fixed cap 1..16, every write-call position of a single one-byte-short write and of a single Interrupted; oracle = byte equality with the in-memory build, bytes_written == sink count after every call, open + verify + query suite; non-trivial = a short write or Interrupted at a data offset >= 16 (node or footer emission) with >= 2 keys; distinct by (pairs, sink spec)");
    e.assume("sinks honour io::Write's contract (accepted bytes are kept)");
    // small FSTs for the exhaustive part
    let smalls: Vec<(Pairs, bool)> = vec![
        (vec![(b"abc".to_vec(), 300), (b"abd".to_vec(), 70000)], false),
        (vec![(vec![], 5), (b"a".to_vec(), 7)], false),
        (gen::enum_values(3, &gen::u2()), false),
        (gen::enum_values(0, &gen::subset(&gen::u3(), 0b101_1011_0110_1101)), true),
        ((0u8..40).map(|b| (vec![b'k', b * 3], b as u64 * 1000)).collect(), false), // fan-out 40: index table write
        (vec![], true),
        // 256-way node whose transitions all carry 8-byte outputs: single writes of 8 bytes x 256 + index
        ((0u16..256).map(|b| (vec![b'w', b as u8], crate::engine::mix(b as u64, 0xfa7))).collect(), false),
    ];
    let mut items: Vec<Case> = vec![];
    for (pairs, set) in &smalls {
        let w = count_writes(pairs, *set);
        for cap in 1..=16usize {
            items.push(Case { pairs: pairs.clone(), set: *set, sink: SinkSpec::Script { script: vec![], then_cap: cap } });
        }
        for i in 0..w as usize {
            let mut script = vec![Act::Accept(usize::MAX); i];
            script.push(Act::AllButOne);
            items.push(Case { pairs: pairs.clone(), set: *set, sink: SinkSpec::Script { script, then_cap: usize::MAX } });
            let mut script = vec![Act::Accept(usize::MAX); i];
            script.push(Act::Interrupted);
            items.push(Case { pairs: pairs.clone(), set: *set, sink: SinkSpec::Script { script, then_cap: usize::MAX } });
        }
    }
    e.extra("exhaustive_single_disturbance_cases", json!(items.len()));
    e.run_list("every-cap-and-single-disturbance-position", &items, |c| c.to_json(), check);
    e.run_prop(
        "random-scripts-x-sinks",
        e.tier.pick(60_000, 2_000_000),
        || (gen::small_pairs(30, 300), any::<bool>(), sink_strategy()).prop_map(|(pairs, set, sink)| Case { pairs, set, sink }),
        |c| c.to_json(),
        check,
    );
    // "bytes_written() always equals the number of bytes the sink has accepted so far" — also
    // right after a call that failed half-way through a buffer (sink accepts <= 3 bytes per
    // call and fails at write index i, for every i)
    let mut fault_cases: Vec<(Pairs, bool)> = smalls.iter().filter(|s| !s.0.is_empty()).cloned().collect();
    // interior nodes with 6- and 8-byte outputs are written *during* later inserts, in several chunks
    fault_cases.push((vec![(b"aa".to_vec(), 1 << 40), (b"ab".to_vec(), 3), (b"b".to_vec(), 0), (b"ca".to_vec(), u64::MAX), (b"cb".to_vec(), 1), (b"d".to_vec(), 5)], false));
    fault_cases.push(((0u16..60).map(|b| (vec![b'w', (b % 3) as u8 + b'a', b as u8], crate::engine::mix(b as u64, 0xfa7))).collect::<std::collections::BTreeMap<_, _>>().into_iter().collect(), false));
    e.run_list("bytes-written-after-a-failed-call", &fault_cases, |c| json!({"pairs": pairs_json(&c.0), "set": c.1, "faulted": true}), |(pairs, set), rec| check_faulted(pairs, set, rec));
    // files beyond 64 KiB through short-writing sinks (byte counter / address arithmetic far from the start)
    let mediums: Vec<(gen::Recipe, Case)> = (0..e.tier.pick(12u64, 40)).map(|i| {
        let r = gen::Recipe { kind: 1, n: 12_000 + 1_700 * i, seed: crate::engine::mix(e.seed, 700 + i), fanout: 5, keylen: 12, values: (i % 3) as u8 };
        let script: Vec<Act> = (0..400).map(|j| match crate::engine::mix(e.seed ^ i, j) % 5 { 0 => Act::Interrupted, 1 => Act::AllButOne, 2 => Act::Accept(1), _ => Act::Accept(usize::MAX) }).collect();
        // mostly unbuffered sinks with a small fixed cap for the whole file: every multi-byte write is short
        let cap = [1usize, 2, 3, 5, 7, 2, 3, 1, 4, 6, 2, 3][(i % 12) as usize];
        let c = Case { pairs: r.pairs(), set: r.values == 0, sink: if i % 6 != 5 { SinkSpec::Script { script, then_cap: cap } } else { SinkSpec::Buffered { capacity: 7, script, then_cap: cap } } };
        (r, c)
    }).collect();
    e.run_list("files-over-64KiB-through-short-writing-sinks", &mediums, |(r, c)| json!({"recipe": r.to_json(), "set": c.set, "sink": c.to_json()["sink"]}), |(_, c), rec| {
        rec.class("file_over_64KiB_through_scripted_sink");
        check(c, rec)
    });
    // a builder that batches its writes may never touch the sink during an insert on these inputs
    e.expect_class("bytes_written_checked_after_failed_insert", 1);
    for cls in ["short_write_or_interrupt_in_nodes_or_footer", "sink:bufwriter", "sink:cursor", "sink:prefilled_vec", "sink:&mut_vec"] {
        e.require_class(cls, 1);
    }
}

pub fn replay(_sub: &str, case: &Value) -> Option<CheckResult> {
    let mut rec = Rec::new(0);
    if case.get("faulted").is_some() {
        return Some(crate::engine::guarded(|| {
            let pairs = crate::engine::pairs_from_json(case.get("pairs").ok_or_else(bad)?).ok_or_else(bad)?;
            let set = case.get("set").and_then(|x| x.as_bool()).ok_or_else(bad)?;
            check_faulted(&pairs, &set, &mut rec)
        }));
    }
    if let Some(r) = case.get("recipe") {
        return Some(crate::engine::guarded(|| {
            // the keys are regenerated from the recipe; set flag and sink are stored
            let r = gen::Recipe::from_json(r).ok_or_else(bad)?;
            let mut v = json!({"pairs": pairs_json(&r.pairs()), "set": case.get("set").cloned().unwrap_or(json!(false)), "sink": case.get("sink").cloned().unwrap_or(Value::Null)});
            let c = Case::from_json(&v).ok_or_else(bad)?;
            v = Value::Null;
            let _ = v;
            check(&c, &mut rec)
        }));
    }
    Some(crate::engine::guarded(|| check(&Case::from_json(case).ok_or_else(bad)?, &mut rec)))
}
