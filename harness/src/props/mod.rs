use serde_json::Value;

use crate::engine::{CheckResult, Engine, Tier, VERIF_DIR};

pub mod c01;
pub mod c02;
pub mod c03;
pub mod c04;
pub mod c05;
pub mod c06;
pub mod c07;
pub mod c08;
pub mod c09;
pub mod c10;
pub mod c11;
pub mod c12;
pub mod c13;
pub mod c14;
pub mod c15;
pub mod c16;
pub mod c17;
pub mod c18;
pub mod c19;
pub mod c20;

pub struct Prop {
    pub id: &'static str,
    pub level: &'static str,
    pub run: fn(&Engine),
    pub replay: fn(&str, &Value) -> Option<CheckResult>,
}

pub fn all() -> Vec<Prop> {
    vec![
        Prop { id: "C01", level: "exploration", run: c01::run, replay: c01::replay },
        Prop { id: "C02", level: "exploration", run: c02::run, replay: c02::replay },
        Prop { id: "C03", level: "exploration", run: c03::run, replay: c03::replay },
        Prop { id: "C04", level: "exploration", run: c04::run, replay: c04::replay },
        Prop { id: "C05", level: "exploration", run: c05::run, replay: c05::replay },
        Prop { id: "C06", level: "exploration", run: c06::run, replay: c06::replay },
        Prop { id: "C07", level: "exploration", run: c07::run, replay: c07::replay },
        Prop { id: "C08", level: "exploration", run: c08::run, replay: c08::replay },
        Prop { id: "C09", level: "exploration", run: c09::run, replay: c09::replay },
        Prop { id: "C10", level: "exploration", run: c10::run, replay: c10::replay },
        Prop { id: "C11", level: "fault_enumeration", run: c11::run, replay: c11::replay },
        Prop { id: "C12", level: "exploration", run: c12::run, replay: c12::replay },
        Prop { id: "C13", level: "exploration", run: c13::run, replay: c13::replay },
        Prop { id: "C14", level: "exploration", run: c14::run, replay: c14::replay },
        Prop { id: "C15", level: "exploration", run: c15::run, replay: c15::replay },
        Prop { id: "C16", level: "exploration", run: c16::run, replay: c16::replay },
        Prop { id: "C17", level: "exploration", run: c17::run, replay: c17::replay },
        Prop { id: "C18", level: "exploration", run: c18::run, replay: c18::replay },
        Prop { id: "C19", level: "exploration", run: c19::run, replay: c19::replay },
        Prop { id: "C20", level: "exploration", run: c20::run, replay: c20::replay },
    ]
}

fn find(id: &str) -> Option<Prop> {
    all().into_iter().find(|p| p.id == id)
}

/// Replay all committed regression reproducers of a property.
fn regress(e: &Engine, p: &Prop) {
    let dir = format!("{}/replays/regress", VERIF_DIR);
    let mut files: Vec<_> = match std::fs::read_dir(&dir) {
        Ok(rd) => rd.filter_map(|x| x.ok()).map(|x| x.path()).collect(),
        Err(_) => return,
    };
    files.sort();
    let mut n = 0u64;
    for f in files {
        let name = f.file_name().unwrap().to_string_lossy().to_string();
        if !name.starts_with(p.id) || !name.ends_with(".json") {
            continue;
        }
        let doc: Value = match std::fs::read_to_string(&f).ok().and_then(|s| serde_json::from_str(&s).ok()) {
            Some(d) => d,
            None => continue,
        };
        let sub = doc.get("subcheck").and_then(|s| s.as_str()).unwrap_or("");
        let case = doc.get("case").cloned().unwrap_or(Value::Null);
        match (p.replay)(sub, &case) {
            Some(Ok(())) => n += 1,
            Some(Err(fail)) => {
                n += 1;
                e.report(&format!("regress-{}", sub), case, fail);
            }
            None => eprintln!("[{}] regress file {} not understood", p.id, name),
        }
    }
    e.extra("regression_replays", serde_json::json!(n));
}

pub fn run(id: &str, tier: Tier, seed: u64) -> i32 {
    let p = match find(id) {
        Some(p) => p,
        None => {
            eprintln!("unknown property {}", id);
            return 2;
        }
    };
    let e = Engine::new(p.id, p.level, tier, seed);
    regress(&e, &p);
    (p.run)(&e);
    e.finish()
}

pub fn replay(id: &str, path: &str) -> i32 {
    let p = match find(id) {
        Some(p) => p,
        None => {
            eprintln!("unknown property {}", id);
            return 2;
        }
    };
    let doc: Value = match std::fs::read_to_string(path).ok().and_then(|s| serde_json::from_str(&s).ok()) {
        Some(d) => d,
        None => {
            // not JSON: a libFuzzer artifact; the target is named in the file name
            let name = std::path::Path::new(path).file_name().map(|n| n.to_string_lossy().to_string()).unwrap_or_default();
            let target = ["open_verify", "mutate_verify", "reader_versions", "roundtrip"].into_iter().find(|t| name.contains(t));
            return match (target, std::fs::read(path)) {
                (Some(t), Ok(data)) => match crate::fuzzdec::run_target(t, &data) {
                    Some(Err(fail)) => {
                        println!("VIOLATION property={} replay={}", id, path);
                        println!("  signature={}", fail.sig);
                        println!("  {}", fail.msg);
                        1
                    }
                    _ => {
                        println!("replay {}: fuzz target {} finds no violation on this input", path, t);
                        0
                    }
                },
                _ => {
                    eprintln!("cannot read replay file {}", path);
                    2
                }
            };
        }
    };
    let sub = doc.get("subcheck").and_then(|s| s.as_str()).unwrap_or("");
    let sub = sub.strip_prefix("regress-").unwrap_or(sub);
    let case = doc.get("case").cloned().unwrap_or(Value::Null);
    // In a campaign a case is never the first thing its thread does. Some violations (state that
    // survives from one builder to the next) only show with a history, so the replay gives the
    // thread one: a default-geometry build large enough to fill most of the node cache, and a
    // small one, before the saved case runs.
    {
        let warm = crate::gen::Recipe { kind: 1, n: 60_000, seed: 0x5eed, fanout: 4, keylen: 10, values: 2 };
        let _ = crate::engine::catch(|| {
            let _ = crate::gen::build_plain(&warm.pairs(), false);
            let _ = crate::gen::build_plain(&vec![(b"a".to_vec(), 1), (b"b".to_vec(), 2)], false);
        });
    }
    match (p.replay)(sub, &case) {
        Some(Ok(())) => {
            println!("replay {}: property {} holds on this case", path, id);
            0
        }
        Some(Err(fail)) => {
            println!("VIOLATION property={} replay={}", id, path);
            println!("  signature={}", fail.sig);
            println!("  {}", fail.msg);
            1
        }
        None => {
            eprintln!("replay file {} not understood (subcheck {})", path, sub);
            2
        }
    }
}

pub fn child(cmd: &str, _args: &[String]) -> i32 {
    match cmd {
        "child-gen-golden" => c10::gen_golden(),
        "child-digest" => c15::child_digest(_args),
        "child-mem-build" => c13::child(_args),
        "child-mem-traverse" => c14::child(_args),
        _ => 2,
    }
}
