//! C17 Levenshtein automaton accepts exactly the keys within the edit
//! distance.

use fst::automaton::{Levenshtein, LevenshteinError};
use fst::Automaton;
use proptest::prelude::*;
use serde_json::{json, Value};

use crate::engine::{CheckResult, Engine, Fail, Rec, H};
use crate::gen;
use crate::oracle::{self, Bounds};
use crate::props::c01::bad;

pub const SIGMA: [char; 8] = ['a', 'é', 'ê', '☃', '☄', '😀', '😁', '𝄞'];

/// Edit distance (insert / delete / substitute) over Unicode scalar values.
pub fn editdist(a: &[char], b: &[char]) -> usize {
    let mut prev: Vec<usize> = (0..=b.len()).collect();
    for i in 1..=a.len() {
        let mut cur = vec![i; b.len() + 1];
        for j in 1..=b.len() {
            let sub = prev[j - 1] + (a[i - 1] != b[j - 1]) as usize;
            cur[j] = sub.min(prev[j] + 1).min(cur[j - 1] + 1);
        }
        prev = cur;
    }
    prev[b.len()]
}

/// All strings over SIGMA of length <= n.
pub fn sigma_strings(n: usize) -> Vec<String> {
    let mut out = vec![String::new()];
    let mut frontier = vec![String::new()];
    for _ in 0..n {
        let mut next = vec![];
        for s in &frontier {
            for c in SIGMA {
                let mut t = s.clone();
                t.push(c);
                next.push(t);
            }
        }
        out.extend(next.iter().cloned());
        frontier = next;
    }
    out
}

fn shares_lead(q: &[char], k: &[char]) -> bool {
    // two distinct characters sharing a UTF-8 lead byte at aligned or adjacent positions
    let lead = |c: char| {
        let mut b = [0u8; 4];
        c.encode_utf8(&mut b);
        b[0]
    };
    for (i, &a) in q.iter().enumerate() {
        if a.len_utf8() == 1 {
            continue;
        }
        for j in i.saturating_sub(1)..=(i + 1) {
            if let Some(&b) = k.get(j) {
                if a != b && lead(a) == lead(b) {
                    return true;
                }
            }
        }
    }
    // also: two distinct query characters sharing a lead byte
    for (i, &a) in q.iter().enumerate() {
        for &b in &q[i + 1..] {
            if a != b && a.len_utf8() > 1 && lead(a) == lead(b) {
                return true;
            }
        }
    }
    false
}

/// Decide one (q, d, k) against the DP. Returns Ok(matched).
fn decide(lev: &Levenshtein, q: &[char], d: u32, k: &str) -> Result<bool, Fail> {
    let mut st = lev.start();
    let mut dead_seen = false;
    for &b in k.as_bytes() {
        st = lev.accept(&st, b);
        if !lev.can_match(&st) {
            dead_seen = true;
        }
    }
    let got = lev.is_match(&st);
    let kc: Vec<char> = k.chars().collect();
    let dist = editdist(q, &kc);
    let want = dist <= d as usize;
    if got != want {
        let sig = if shares_lead(q, &kc) { "lev-shared-lead-byte" } else { "lev-mismatch" };
        return Err(Fail::new(
            sig,
            format!(
                "Levenshtein({:?}, {}) {} key {:?} but the edit distance is {}",
                q.iter().collect::<String>(),
                d,
                if got { "accepts" } else { "rejects" },
                k,
                dist
            ),
        ));
    }
    if dead_seen && got {
        return Err(Fail::new("lev-dead-then-match", format!("Levenshtein({:?}, {}): a prefix of {:?} reported can_match=false but the key matches", q.iter().collect::<String>(), d, k)));
    }
    Ok(got)
}

#[derive(Clone, Debug)]
pub struct Case {
    pub q: String,
    pub d: u32,
    pub keys: Vec<String>,
    pub bounds: Bounds,
}

impl Case {
    fn to_json(&self) -> Value {
        json!({"q": self.q, "d": self.d, "keys": self.keys, "bounds": oracle::bounds_json(&self.bounds)})
    }
    fn from_json(v: &Value) -> Option<Case> {
        Some(Case {
            q: v.get("q")?.as_str()?.to_string(),
            d: v.get("d")?.as_u64()? as u32,
            keys: v.get("keys")?.as_array()?.iter().map(|x| x.as_str().map(|s| s.to_string())).collect::<Option<Vec<_>>>()?,
            bounds: oracle::bounds_from_json(v.get("bounds")?)?,
        })
    }
}

pub fn check(c: &Case, rec: &mut Rec) -> CheckResult {
    let q: Vec<char> = c.q.chars().collect();
    let lev = match crate::engine::catch(|| Levenshtein::new(&c.q, c.d)) {
        Ok(Ok(l)) => l,
        Ok(Err(LevenshteinError::TooManyStates(n))) => {
            rec.class("default_state_limit_exceeded(skipped)");
            let _ = n;
            return Ok(());
        }
        Err(p) => vfail!("panic", "Levenshtein::new({:?}, {}) panicked: {}", c.q, c.d, p),
    };
    let mut keys = c.keys.clone();
    keys.sort();
    keys.dedup();
    let mut want: Vec<Vec<u8>> = vec![];
    for k in &keys {
        rec.eval();
        let m = decide(&lev, &q, c.d, k)?;
        if m && oracle::in_bounds(k.as_bytes(), &c.bounds) {
            want.push(k.as_bytes().to_vec());
        }
        if !rec.muted {
            let kc: Vec<char> = k.chars().collect();
            if shares_lead(&q, &kc) {
                rec.class("shared_lead_byte_pair");
            }
            if shares_lead(&q, &kc) || (q.len() >= 2 && c.d >= 1) {
                rec.nontrivial(H::new().b(c.q.as_bytes()).u(c.d as u64).b(k.as_bytes()).get());
            }
        }
    }
    // search on the set of keys
    let pairs: gen::Pairs = keys.iter().map(|k| (k.as_bytes().to_vec(), 0)).collect();
    let pairs = gen::sort_dedup(pairs);
    let bytes = gen::build_plain(&pairs, true).map_err(|e| Fail::new("build-error", e))?;
    let set = fst::Set::new(&bytes[..]).map_err(|e| Fail::new("open-failed", format!("{:?}", e)))?;
    let got = oracle::apply_set(set.search(&lev), &c.bounds).into_stream().into_bytes();
    use fst::IntoStreamer;
    want.sort();
    vensure!(got == want, "lev-search", "Set::search(Levenshtein({:?},{})){} yields {:?} but the keys within the distance are {:?}", c.q, c.d, oracle::bounds_show(&c.bounds), got.iter().map(|k| String::from_utf8_lossy(k).to_string()).collect::<Vec<_>>(), want.iter().map(|k| String::from_utf8_lossy(k).to_string()).collect::<Vec<_>>());
    let map = fst::Map::new(&bytes[..]).map_err(|e| Fail::new("open-failed", format!("{:?}", e)))?;
    let gotm = oracle::apply_map(map.search(&lev), &c.bounds).into_stream().into_byte_keys();
    vensure!(gotm == want, "lev-search", "Map::search(Levenshtein({:?},{})) differs from the keys within the distance", c.q, c.d);
    if !rec.muted && rec.wants_sample() {
        rec.sample(json!({"q": c.q, "d": c.d, "n_keys": keys.len(), "some_keys": keys.iter().take(6).collect::<Vec<_>>(), "matched_in_bounds": want.len()}));
    }
    Ok(())
}

/// Short query, large distance; keys are the query padded with `fill` characters to lengths
/// around the distance.
fn check_large_d(q: &[char], d: u32, fill: char, shapes: &[(u8, usize)], rec: &mut Rec) -> CheckResult {
    let qstr: String = q.iter().collect();
    let lev = match crate::engine::catch(|| Levenshtein::new_with_limit(&qstr, d, 300_000)) {
        Ok(Ok(l)) => l,
        Ok(Err(_)) => {
            rec.class("over_300k_states(skipped)");
            return Ok(());
        }
        Err(p) => vfail!("panic", "Levenshtein::new_with_limit({:?}, {}, 300000) panicked: {}", qstr, d, p),
    };
    let d = d as usize;
    for &(shape, at) in shapes {
        // number of fill characters: just inside / on / just outside the distance
        let n = match shape {
            0 => d.saturating_sub(1),
            1 => d,
            2 => d + 1,
            3 => d + q.len(),
            4 => d + q.len() + 1,
            _ => d / 2,
        };
        let mut k: Vec<char> = q.to_vec();
        let pos = if k.is_empty() { 0 } else { at % (k.len() + 1) };
        for _ in 0..n {
            k.insert(pos, fill);
        }
        for key in [k.clone(), std::iter::repeat(fill).take(n).collect::<Vec<char>>()] {
            rec.eval();
            let ks: String = key.iter().collect();
            decide(&lev, q, d as u32, &ks)?;
            if !rec.muted {
                rec.nontrivial(H::new().b(qstr.as_bytes()).u(d as u64).b(ks.as_bytes()).get());
                if d > 255 {
                    rec.class("distance_over_255");
                }
            }
        }
    }
    Ok(())
}

/// Break a valid string into one that is not UTF-8.
fn break_utf8(w: &str, how: u8, pos: usize) -> Vec<u8> {
    let mut b = w.as_bytes().to_vec();
    let at = if b.is_empty() { 0 } else { pos % (b.len() + 1) };
    match how {
        0 => {
            // cut the last multi-byte character short (or append a lone lead byte)
            if b.last().map(|x| *x >= 0x80).unwrap_or(false) {
                b.pop();
            } else {
                b.push(0xc3);
            }
        }
        1 => b.insert(at, 0x80),
        2 => b.insert(at, 0xbf),
        3 => b.insert(at, 0xff),
        4 => b.splice(at..at, [0xc0, 0xaf]).for_each(drop),
        5 => b.splice(at..at, [0xed, 0xa0, 0x80]).for_each(drop),
        6 => b.splice(at..at, [0xf4, 0x90, 0x80, 0x80]).for_each(drop),
        7 => b.splice(at..at, [0xe0, 0x80, 0x80]).for_each(drop),
        8 => b.push(0xe2),
        9 => b.splice(at..at, [0xf0, 0x9f]).for_each(drop),
        10 => b.push(0xf0),
        _ => b.splice(at..at, [0xe2, 0x98]).for_each(drop),
    }
    b
}

fn check_non_utf8(q: &str, d: u32, ks: &[(String, u8, usize)], rec: &mut Rec) -> CheckResult {
    let qc: Vec<char> = q.chars().collect();
    let lev = match crate::engine::catch(|| Levenshtein::new(q, d)) {
        Ok(Ok(l)) => l,
        Ok(Err(_)) => return Ok(()),
        Err(p) => vfail!("panic", "Levenshtein::new({:?}, {}) panicked: {}", q, d, p),
    };
    let mut keys: Vec<Vec<u8>> = vec![q.as_bytes().to_vec()];
    for (w, how, pos) in ks {
        keys.push(w.as_bytes().to_vec());
        keys.push(break_utf8(w, *how, *pos));
        // the query itself, broken: the likeliest false match
        keys.push(break_utf8(q, *how, *pos));
    }
    keys.sort();
    keys.dedup();
    let mut want: Vec<Vec<u8>> = vec![];
    let mut invalid = 0;
    for k in &keys {
        rec.eval();
        let mut st = lev.start();
        for &b in k {
            st = lev.accept(&st, b);
        }
        let got = lev.is_match(&st);
        match std::str::from_utf8(k) {
            Ok(ks) => {
                let kc: Vec<char> = ks.chars().collect();
                let w = editdist(&qc, &kc) <= d as usize;
                vensure!(got == w, "lev-mismatch", "Levenshtein({:?}, {}) {} key {:?} but the edit distance is {}", q, d, if got { "accepts" } else { "rejects" }, ks, editdist(&qc, &kc));
                if w {
                    want.push(k.clone());
                }
            }
            Err(_) => {
                // outside the property's domain (it quantifies over valid UTF-8 keys): what the
                // automaton says about such a byte string is recorded, never judged
                invalid += 1;
                if got && !rec.muted {
                    rec.class("accepts_a_non_utf8_key(informational)");
                }
            }
        }
    }
    let pairs: gen::Pairs = keys.iter().map(|k| (k.clone(), 0)).collect();
    let bytes = gen::build_plain(&pairs, true).map_err(|e| Fail::new("build-error", e))?;
    let set = fst::Set::new(&bytes[..]).map_err(|e| Fail::new("open-failed", format!("{:?}", e)))?;
    use fst::IntoStreamer;
    // the valid keys in the result must be exactly the valid keys within the distance
    let got: Vec<Vec<u8>> = set.search(&lev).into_stream().into_bytes().into_iter().filter(|k| std::str::from_utf8(k).is_ok()).collect();
    vensure!(got == want, "lev-search", "Set::search(Levenshtein({:?},{})) over a set that also holds {} non-UTF-8 keys yields the valid keys {:?} but the valid keys within the distance are {:?}", q, d, invalid, got.iter().map(|k| crate::engine::show(k)).collect::<Vec<_>>(), want.iter().map(|k| crate::engine::show(k)).collect::<Vec<_>>());
    if !rec.muted && invalid > 0 {
        rec.class("invalid_utf8_key_in_set");
        rec.nontrivial(H::new().b(q.as_bytes()).u(d as u64).u(crate::engine::fnv(&bytes)).get());
    }
    Ok(())
}

/// Long query: default-limit consistency, then the query under a few generated edits.
fn check_long(q: &Vec<char>, d: &u32, edits: &Vec<(usize, usize, u8)>, rec: &mut Rec) -> CheckResult {
    let qstr: String = q.iter().collect();
    let full = match Levenshtein::new_with_limit(&qstr, *d, 400_000) {
        Ok(l) => l,
        Err(_) => {
            rec.class("over_400k_states(skipped)");
            return Ok(());
        }
    };
    let s = full.verif_num_states();
    let dflt = Levenshtein::new(&qstr, *d);
    vensure!(dflt.is_ok() == (s <= 10_000), "lev-default-limit", "Levenshtein::new({:?},{}) returned {} but the construction needs {} states (default limit 10000)", qstr, d, if dflt.is_ok() { "Ok" } else { "TooManyStates" }, s);
    rec.class(if s > 10_000 { "needs_more_than_default_limit" } else { "within_default_limit" });
    // keys: the query under a few generated edits
    let mut keys: Vec<Vec<char>> = vec![q.clone(), vec![]];
    let mut cur = q.clone();
    for (pos, ch, op) in edits {
        let p = if cur.is_empty() { 0 } else { pos % cur.len() };
        match op {
            0 if !cur.is_empty() => cur[p] = SIGMA[*ch],
            1 => cur.insert(p, SIGMA[*ch]),
            _ if !cur.is_empty() => {
                cur.remove(p);
            }
            _ => {}
        }
        keys.push(cur.clone());
    }
    for k in keys {
        rec.eval();
        let ks: String = k.iter().collect();
        decide(&full, q, *d, &ks)?;
        rec.nontrivial(H::new().b(qstr.as_bytes()).u(*d as u64).b(ks.as_bytes()).get());
    }
    Ok(())
}

fn check_limits(q: &str, d: u32, rec: &mut Rec) -> CheckResult {
    let full = match Levenshtein::new_with_limit(q, d, usize::MAX) {
        Ok(l) => l,
        Err(e) => vfail!("lev-limit", "new_with_limit({:?},{},usize::MAX) failed: {}", q, d, e),
    };
    let s = full.verif_num_states();
    for limit in (1..=s + 2).chain([0usize]) {
        rec.eval();
        let r = match crate::engine::catch(|| Levenshtein::new_with_limit(q, d, limit)) {
            Ok(r) => r,
            Err(p) => vfail!("panic", "new_with_limit({:?},{},{}) panicked: {}", q, d, limit, p),
        };
        match r {
            Ok(l) => {
                vensure!(l.verif_num_states() <= limit, "lev-limit", "new_with_limit({:?},{},{}) returned an automaton with {} states", q, d, limit, l.verif_num_states());
                vensure!(s <= limit, "lev-limit", "new_with_limit({:?},{},{}) succeeded although the construction needs {} states", q, d, limit, s);
                rec.class("limit_sufficient");
            }
            Err(LevenshteinError::TooManyStates(l)) => {
                vensure!(l == limit, "lev-limit", "TooManyStates({}) reported for limit {}", l, limit);
                vensure!(s > limit, "lev-limit", "new_with_limit({:?},{},{}) failed although the construction needs only {} states", q, d, limit, s);
                rec.class("limit_exceeded");
            }
        }
        rec.nontrivial(H::new().b(q.as_bytes()).u(d as u64).u(limit as u64).u(0x11).get());
    }
    Ok(())
}

pub fn run(e: &Engine) {
    e.set_rule("cases are (query q, distance d, key k) over the alphabet {a, e-acute, e-circumflex, U+2603, U+2604, U+1F600, U+1F601, U+1D11E}: exhaustively all |q| <= 3 x d in 0..=2 x all |k| <= 4 (|q| <= 4, |k| <= 5 in thorough), randomly beyond (|q| <= 8, arbitrary scalar values, d <= 3); oracle = O(|q||k|) DP edit distance over chars; plus Set/Map::search on generated key sets with bounds and state limits 0..S+2 via the hook; evaluations counts (q,d,k) decisions; non-trivial = two distinct characters sharing a UTF-8 lead byte at aligned/adjacent positions, or |q| >= 2 with d >= 1; distinct over (q, d, k)");
    e.assume("keys are valid UTF-8; distances counted in Unicode scalar values");
    let qs = sigma_strings(e.tier.pick(3, 4)); // 585 (4681 thorough)
    let ks = sigma_strings(e.tier.pick(4, 5));
    let qs_ref = &qs;
    let ks_ref = &ks;
    e.run_enum("all-q<=3-x-d<=2-x-all-k", qs.len() as u64 * 3, |idx, rec| {
        let qstr = &qs_ref[(idx / 3) as usize];
        let d = (idx % 3) as u32;
        let q: Vec<char> = qstr.chars().collect();
        let lev = match crate::engine::catch(|| Levenshtein::new(qstr, d)) {
            Ok(Ok(l)) => l,
            Ok(Err(err)) => return Err((json!({"q": qstr, "d": d}), Fail::new("lev-build", format!("Levenshtein::new({:?},{}) failed: {}", qstr, d, err)))),
            Err(p) => return Err((json!({"q": qstr, "d": d}), Fail::new("panic", format!("Levenshtein::new({:?},{}) panicked: {}", qstr, d, p)))),
        };
        for k in ks_ref {
            rec.eval();
            match crate::engine::guarded(|| decide(&lev, &q, d, k).map(|_| ())) {
                Ok(()) => {}
                Err(f) => {
                    let c = Case { q: qstr.clone(), d, keys: vec![k.clone()], bounds: vec![] };
                    return Err((c.to_json(), f));
                }
            }
            let kc: Vec<char> = k.chars().collect();
            if shares_lead(&q, &kc) {
                rec.class("shared_lead_byte_pair");
                rec.nontrivial_by_construction();
            } else if q.len() >= 2 && d >= 1 {
                rec.nontrivial_by_construction();
            }
        }
        Ok(())
    });
    // search over the set of all |k| <= 2 keys for every (q, d)
    let k2 = sigma_strings(2);
    let k2_ref = &k2;
    e.run_enum("search-all-k<=2-for-every-q-d", qs.len() as u64 * 3, |idx, rec| {
        let qstr = &qs_ref[(idx / 3) as usize];
        let d = (idx % 3) as u32;
        let b: Bounds = match idx % 4 {
            0 => vec![],
            1 => vec![(oracle::Kind::Ge, "é".as_bytes().to_vec())],
            2 => vec![(oracle::Kind::Gt, "a".as_bytes().to_vec()), (oracle::Kind::Lt, "😀".as_bytes().to_vec())],
            _ => vec![(oracle::Kind::Le, "☃☄".as_bytes().to_vec())],
        };
        let c = Case { q: qstr.clone(), d, keys: k2_ref.clone(), bounds: b };
        crate::engine::guarded(|| check(&c, rec)).map_err(|f| (c.to_json(), f))
    });
    // characters at the boundaries of the UTF-8 encoding classes (lead bytes C2, DF, E0, ED, EE, EF, F0, F4)
    const SIGMA2: [char; 16] = ['\u{7f}', '\u{80}', '\u{7ff}', '\u{800}', '\u{fff}', '\u{1000}', '\u{d7ff}', '\u{e000}', '\u{ffff}', '\u{10000}', '\u{3ffff}', '\u{40000}', '\u{fffff}', '\u{100000}', '\u{10ffff}', '\u{10fffe}'];
    let mut s2: Vec<String> = vec![String::new()];
    for a in SIGMA2 {
        s2.push(a.to_string());
        for b in SIGMA2 {
            s2.push([a, b].iter().collect());
        }
    }
    let s2_ref = &s2;
    e.run_enum("utf8-boundary-alphabet-q<=2-k<=2", s2.len() as u64 * 3, |idx, rec| {
        let qstr = &s2_ref[(idx / 3) as usize];
        let d = (idx % 3) as u32;
        let q: Vec<char> = qstr.chars().collect();
        let lev = match crate::engine::catch(|| Levenshtein::new(qstr, d)) {
            Ok(Ok(l)) => l,
            Ok(Err(err)) => return Err((json!({"q": qstr, "d": d}), Fail::new("lev-build", format!("Levenshtein::new({:?},{}) failed: {}", qstr, d, err)))),
            Err(p) => return Err((json!({"q": qstr, "d": d}), Fail::new("panic", format!("Levenshtein::new({:?},{}) panicked: {}", qstr, d, p)))),
        };
        for k in s2_ref {
            rec.eval();
            if let Err(f) = crate::engine::guarded(|| decide(&lev, &q, d, k).map(|_| ())) {
                let c = Case { q: qstr.clone(), d, keys: vec![k.clone()], bounds: vec![] };
                return Err((c.to_json(), f));
            }
            if q.len() >= 1 && d >= 1 {
                rec.nontrivial_by_construction();
            }
        }
        rec.class("utf8_boundary_alphabet");
        Ok(())
    });
    // same-length characters that share the first and the last UTF-8 byte but differ in a middle
    // byte (U+2603/U+2643, U+1F600/U+1F640), or share only the last byte (U+1603, U+1D100)
    const SIGMA3: [char; 9] = ['☃', '♃', '☄', 'ᘃ', '😀', '🙀', '𝄀', 'é', 'x'];
    let mut s3: Vec<String> = vec![String::new()];
    {
        let mut frontier = vec![String::new()];
        for _ in 0..3 {
            let mut next = vec![];
            for s in &frontier {
                for c in SIGMA3 {
                    let mut t = s.clone();
                    t.push(c);
                    next.push(t);
                }
            }
            s3.extend(next.iter().cloned());
            frontier = next;
        }
    }
    let s3_ref = &s3;
    let nq3 = 1 + 9 + 81; // queries of <= 2 characters
    e.run_enum("shared-first-and-last-byte-alphabet-q<=2-k<=3", nq3 as u64 * 3, |idx, rec| {
        let qstr = &s3_ref[(idx / 3) as usize];
        let d = (idx % 3) as u32;
        let q: Vec<char> = qstr.chars().collect();
        let lev = match crate::engine::catch(|| Levenshtein::new(qstr, d)) {
            Ok(Ok(l)) => l,
            Ok(Err(err)) => return Err((json!({"q": qstr, "d": d}), Fail::new("lev-build", format!("Levenshtein::new({:?},{}) failed: {}", qstr, d, err)))),
            Err(p) => return Err((json!({"q": qstr, "d": d}), Fail::new("panic", format!("Levenshtein::new({:?},{}) panicked: {}", qstr, d, p)))),
        };
        for k in s3_ref {
            rec.eval();
            if let Err(f) = crate::engine::guarded(|| decide(&lev, &q, d, k).map(|_| ())) {
                let c = Case { q: qstr.clone(), d, keys: vec![k.clone()], bounds: vec![] };
                return Err((c.to_json(), f));
            }
            if !q.is_empty() && d >= 1 {
                rec.nontrivial_by_construction();
            }
        }
        rec.class("shared_first_and_last_byte_alphabet");
        Ok(())
    });
    // long queries and larger distances (explicit generous state limit), and the default limit:
    // new(q, d) must succeed exactly when the construction needs <= 10 000 states
    e.run_prop(
        "long-queries-and-default-limit",
        e.tier.pick(300, 6_000),
        || (prop_oneof![3 => proptest::collection::vec(prop_oneof![4 => (0usize..8).prop_map(|i| SIGMA[i]), 1 => Just('b')], 6..=14), 2 => proptest::collection::vec(prop_oneof![(0usize..8).prop_map(|i| SIGMA[i]), (b'a'..=b'z').prop_map(|c| c as char)], 15..=26)], 0u32..=4, proptest::collection::vec((0usize..14, 0usize..8, 0u8..3), 0..12)),
        |(q, d, edits)| json!({"long": {"q": q.iter().collect::<String>(), "d": d, "edits": edits.iter().map(|(a, b, c)| json!([a, b, c])).collect::<Vec<_>>()}}),
        |(q, d, edits), rec| check_long(q, d, edits, rec),
    );
    // state limits
    e.run_enum("state-limits-0..S+2", 73 * 3, |idx, rec| {
        let qstr = &qs_ref[(idx / 3) as usize]; // the 73 queries of length <= 2
        let d = (idx % 3) as u32;
        crate::engine::guarded(|| check_limits(qstr, d, rec)).map_err(|f| (json!({"limits_for": [qstr, d]}), f))
    });
    let chr = prop_oneof![
        6 => (0usize..8).prop_map(|i| SIGMA[i]),
        2 => any::<char>(),
        1 => prop_oneof![Just('b'), Just('z'), Just('ë'), Just('\u{7ff}'), Just('\u{800}'), Just('\u{ffff}'), Just('\u{10000}'), Just('\u{10ffff}'), Just('\u{0}')],
    ];
    let word = |max: usize| proptest::collection::vec(chr.clone(), 0..=max).prop_map(|v| v.into_iter().collect::<String>());
    e.run_prop(
        "random-queries-keys-distances",
        e.tier.pick(6_000, 200_000),
        || (word(8), 0u32..=3, proptest::collection::vec(word(9), 0..20), proptest::collection::vec((0u8..4, word(3)), 0..3)).prop_map(|(q, d, mut keys, bs)| {
            // mutate the query into near-miss keys as well
            let qc: Vec<char> = q.chars().collect();
            for i in 0..qc.len().min(4) {
                let mut t = qc.clone();
                t[i] = SIGMA[(i + t.len()) % 8];
                keys.push(t.iter().collect());
                let mut t = qc.clone();
                t.remove(i);
                keys.push(t.iter().collect());
            }
            keys.push(q.clone());
            let bounds: Bounds = bs.into_iter().map(|(k, w)| (oracle::Kind::all()[k as usize], w.into_bytes())).collect();
            Case { q, d, keys, bounds }
        }),
        |c| c.to_json(),
        check,
    );
    // large distances with short queries: the automaton stays small (about d states) while the
    // distance passes 8-bit and other internal widths
    e.run_prop(
        "large-distances-short-queries",
        e.tier.pick(160, 3_000),
        || {
            (
                proptest::collection::vec(prop_oneof![3 => (0usize..8).prop_map(|i| SIGMA[i]), 1 => Just('b')], 0..=3),
                prop_oneof![4 => 3u32..=9, 1 => Just(100u32), 2 => 253u32..=258, 1 => Just(300u32), 1 => Just(511u32), 1 => Just(512u32), 1 => Just(1000u32)],
                prop_oneof![Just('z'), Just('é'), Just('☃'), Just('😀')],
                proptest::collection::vec((0u8..6, 0usize..4), 1..6),
            )
        },
        |(q, d, fill, shapes)| json!({"large_d": {"q": q.iter().collect::<String>(), "d": d, "fill": fill.to_string(), "shapes": shapes.iter().map(|(a, b)| json!([a, b])).collect::<Vec<_>>()}}),
        |(q, d, fill, shapes), rec| check_large_d(q, *d, *fill, shapes, rec),
    );
    // sets may also hold keys that are not UTF-8: they lie outside the property's domain, but
    // their presence must not disturb the answer for the valid keys
    e.run_prop(
        "keys-that-are-not-utf8",
        e.tier.pick(3_000, 100_000),
        || {
            let w = proptest::collection::vec((0usize..8).prop_map(|i| SIGMA[i]), 0..=4).prop_map(|v| v.into_iter().collect::<String>());
            (w.clone(), 0u32..=2, proptest::collection::vec((w, 0u8..12, 0usize..6), 1..10))
        },
        |(q, d, ks)| json!({"non_utf8": {"q": q, "d": d, "keys": ks.iter().map(|(w, m, p)| json!([w, m, p])).collect::<Vec<_>>()}}),
        |(q, d, ks), rec| check_non_utf8(q, *d, ks, rec),
    );
    for cls in ["needs_more_than_default_limit"] {
        // how many states a construction needs is the implementation's business
        e.expect_class(cls, 1);
    }
    for cls in ["shared_lead_byte_pair", "limit_sufficient", "limit_exceeded", "utf8_boundary_alphabet", "within_default_limit", "distance_over_255", "invalid_utf8_key_in_set"] {
        e.require_class(cls, 1);
    }
}

pub fn replay(_sub: &str, case: &Value) -> Option<CheckResult> {
    let mut rec = Rec::new(0);
    Some(crate::engine::guarded(|| {
        if let Some(l) = case.get("long") {
            let q: Vec<char> = l.get("q").and_then(|x| x.as_str()).ok_or_else(bad)?.chars().collect();
            let d = l.get("d").and_then(|x| x.as_u64()).ok_or_else(bad)? as u32;
            let edits: Vec<(usize, usize, u8)> = l.get("edits").and_then(|x| x.as_array()).ok_or_else(bad)?.iter().map(|p| Some((p.get(0)?.as_u64()? as usize, p.get(1)?.as_u64()? as usize, p.get(2)?.as_u64()? as u8))).collect::<Option<Vec<_>>>().ok_or_else(bad)?;
            check_long(&q, &d, &edits, &mut rec)
        } else if let Some(l) = case.get("large_d") {
            let q: Vec<char> = l.get("q").and_then(|x| x.as_str()).ok_or_else(bad)?.chars().collect();
            let d = l.get("d").and_then(|x| x.as_u64()).ok_or_else(bad)? as u32;
            let fill = l.get("fill").and_then(|x| x.as_str()).and_then(|s| s.chars().next()).ok_or_else(bad)?;
            let shapes: Vec<(u8, usize)> = l.get("shapes").and_then(|x| x.as_array()).ok_or_else(bad)?.iter().map(|p| Some((p.get(0)?.as_u64()? as u8, p.get(1)?.as_u64()? as usize))).collect::<Option<Vec<_>>>().ok_or_else(bad)?;
            check_large_d(&q, d, fill, &shapes, &mut rec)
        } else if let Some(l) = case.get("non_utf8") {
            let q = l.get("q").and_then(|x| x.as_str()).ok_or_else(bad)?;
            let d = l.get("d").and_then(|x| x.as_u64()).ok_or_else(bad)? as u32;
            let ks: Vec<(String, u8, usize)> = l.get("keys").and_then(|x| x.as_array()).ok_or_else(bad)?.iter().map(|p| Some((p.get(0)?.as_str()?.to_string(), p.get(1)?.as_u64()? as u8, p.get(2)?.as_u64()? as usize))).collect::<Option<Vec<_>>>().ok_or_else(bad)?;
            check_non_utf8(q, d, &ks, &mut rec)
        } else if let Some(l) = case.get("limits_for") {
            check_limits(l.get(0).and_then(|x| x.as_str()).ok_or_else(bad)?, l.get(1).and_then(|x| x.as_u64()).ok_or_else(bad)? as u32, &mut rec)
        } else {
            check(&Case::from_json(case).ok_or_else(bad)?, &mut rec)
        }
    }))
}
