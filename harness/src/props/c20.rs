//! C20 Opening and verifying untrusted bytes is total and memory-safe.

use proptest::prelude::*;
use serde_json::{json, Value};

use crate::engine::{catch, hex, unhex, CheckResult, Engine, Fail, Rec, VERIF_DIR};
use crate::gen::{self, FstInput};
use crate::props::c01::bad;

/// The oracle: open through all three front ends and call every metadata
/// accessor and verify(), all under catch_unwind.
pub fn check_bytes(b: &[u8], rec: &mut Rec) -> CheckResult {
    rec.eval();
    let r = catch(|| -> Result<&'static str, String> {
        let raw = fst::raw::Fst::new(b);
        let map = fst::Map::new(b);
        let set = fst::Set::new(b);
        // swapping the bytes in behind an already open Fst / Map / Set is another way of opening
        // them (inputs up to 4 KiB: each route copies the input)
        static TINY: std::sync::OnceLock<Vec<u8>> = std::sync::OnceLock::new();
        let tiny = || TINY.get_or_init(|| fst::raw::Builder::memory().into_inner().expect("empty fst")).clone();
        let pick = crate::engine::fnv(&b[..b.len().min(64)]) % 3;
        if b.len() <= 4096 && pick == 0 {
            if let Ok(f) = fst::raw::Fst::new(tiny()).and_then(|f| f.map_data(|_| b.to_vec())) {
                let _ = (f.len(), f.is_empty(), f.fst_type(), f.size());
                let _ = f.verify();
            }
        }
        if b.len() <= 4096 && pick == 1 {
            if let Ok(m) = fst::Map::new(tiny()).and_then(|m| m.map_data(|_| b.to_vec())) {
                let _ = (m.len(), m.is_empty(), m.as_fst().size());
                let _ = m.as_fst().verify();
            }
        }
        if b.len() <= 4096 && pick == 2 {
            if let Ok(m) = fst::Set::new(tiny()).and_then(|m| m.map_data(|_| b.to_vec())) {
                let _ = (m.len(), m.is_empty(), m.as_fst().size());
                let _ = m.as_fst().verify();
            }
        }
        // (the three front ends are not required to agree on what opens: a wrapper may
        // legitimately validate more; each of them only has to be total)
        match raw {
            Err(_) => Ok("rejected"),
            Ok(f) => {
                let n = f.len();
                let e = f.is_empty();
                if e != (n == 0) {
                    return Err(format!("is_empty()={} but len()={}", e, n));
                }
                let _ = f.fst_type();
                if f.size() != b.len() {
                    return Err(format!("size()={} but the input has {} bytes", f.size(), b.len()));
                }
                if f.as_bytes() != b {
                    return Err("as_bytes() differs from the input".to_string());
                }
                let v = f.verify();
                if let Ok(m) = map {
                    let _ = (m.len(), m.is_empty(), m.as_fst().fst_type(), m.as_fst().size());
                    let _ = m.as_fst().verify();
                }
                if let Ok(s) = set {
                    let _ = (s.len(), s.is_empty(), s.as_fst().fst_type(), s.as_fst().size());
                    let _ = s.as_fst().verify();
                }
                let _ = f.to_vec();
                Ok(if v.is_ok() { "opened_and_verified" } else { "opened_verify_error" })
            }
        }
    });
    match r {
        Err(p) => vfail!("panic", "panic while opening / inspecting / verifying a {}-byte input: {}; bytes {}", b.len(), p, hex(&b[..b.len().min(96)])),
        Ok(Err(m)) => vfail!("accessor-mismatch", "{}; bytes {}", m, hex(&b[..b.len().min(96)])),
        Ok(Ok(class)) => {
            if !rec.muted {
                rec.class(class);
                let version = if b.len() >= 8 { u64::from_le_bytes([b[0], b[1], b[2], b[3], b[4], b[5], b[6], b[7]]) } else { 0 };
                let deep = (b.len() >= 36 && (1..=3).contains(&version)) || (32..36).contains(&b.len());
                if deep {
                    rec.class("past_the_length_and_version_gates");
                    rec.nontrivial(crate::engine::fnv(b) ^ (b.len() as u64) << 48);
                    if rec.wants_sample() {
                        rec.sample(json!({"len": b.len(), "outcome": class, "head": hex(&b[..b.len().min(24)]), "tail": hex(&b[b.len().saturating_sub(20)..])}));
                    }
                }
            }
            Ok(())
        }
    }
}

fn grid_case(idx: u64, seed: u64) -> Vec<u8> {
    const VERSIONS: [u64; 9] = [0, 1, 2, 3, 4, 255, 256, 1 << 32, u64::MAX];
    const LENS: [u64; 3] = [0, 1, u64::MAX];
    let mut i = idx;
    let len = (i % 65) as usize;
    i /= 65;
    let version = VERSIONS[(i % 9) as usize];
    i /= 9;
    let root_sel = i % 80;
    i /= 80;
    let count = LENS[(i % 3) as usize];
    i /= 3;
    let filler = i % 3;
    let l = len as u64;
    let root: u64 = match root_sel {
        0 => 0,
        1 => 1,
        2 => 15,
        3 => 16,
        4 => 17,
        5 => 1 << 32,
        6 => 1 << 63,
        7..=28 => u64::MAX - (root_sel - 7),          // u64::MAX-21 ..= u64::MAX
        _ => l.wrapping_sub(40).wrapping_add(root_sel - 29), // L-40 ..= L+10
    };
    let mut b: Vec<u8> = (0..len)
        .map(|j| match filler {
            0 => 0u8,
            1 => 0xff,
            _ => crate::engine::mix(seed ^ idx, j as u64) as u8,
        })
        .collect();
    let put = |b: &mut Vec<u8>, at: isize, v: u64| {
        for (k, x) in v.to_le_bytes().iter().enumerate() {
            let p = at + k as isize;
            if p >= 0 && (p as usize) < b.len() {
                b[p as usize] = *x;
            }
        }
    };
    put(&mut b, 0, version);
    let end = if version >= 3 { len as isize - 4 } else { len as isize };
    put(&mut b, end - 8, root);
    put(&mut b, end - 16, count);
    b
}

#[derive(Clone, Debug)]
pub struct MutCase {
    pub input: FstInput,
    pub op: u8, // 0 truncate, 1 mutate byte, 2 insert byte, 3 append junk
    pub pos: u32,
    pub byte: u8,
}

impl MutCase {
    fn to_json(&self) -> Value {
        json!({"input": self.input.to_json(), "op": self.op, "pos": self.pos, "byte": self.byte})
    }
    fn from_json(v: &Value) -> Option<MutCase> {
        Some(MutCase { input: FstInput::from_json(v.get("input")?)?, op: v.get("op")?.as_u64()? as u8, pos: v.get("pos")?.as_u64()? as u32, byte: v.get("byte")?.as_u64()? as u8 })
    }
    fn apply(&self, orig: &[u8]) -> Vec<u8> {
        let mut m = orig.to_vec();
        let p = (self.pos as usize) % (orig.len() + 1);
        match self.op % 4 {
            0 => m.truncate(p),
            1 => {
                if p < m.len() {
                    m[p] ^= self.byte | 1;
                }
            }
            2 => m.insert(p, self.byte),
            _ => m.extend(std::iter::repeat(self.byte).take(1 + p % 40)),
        }
        m
    }
}

fn check_mut(c: &MutCase, rec: &mut Rec) -> CheckResult {
    let built = gen::build(&c.input).map_err(|e| Fail::new("build-error", e))?;
    check_bytes(&c.apply(&built.bytes), rec)
}

/// Auxiliary deterministic gate prescribed by the property's observe_at:
/// the library must compile with `-F unsafe_code`.
/// Verdict of the `-F unsafe_code` build: Ok(Ok(secs)) compiles, Ok(Err(line)) unsafe code found,
/// Err(why) the build could not be judged.
fn unsafe_lint_once() -> Result<Result<f64, String>, String> {
    let repo = std::env::var("VERIF_REPO").unwrap_or_else(|_| "/repo".to_string());
    let target = std::env::var("VERIF_LINT_TARGET").unwrap_or_else(|_| format!("{}/target/lint", VERIF_DIR));
    let t0 = std::time::Instant::now();
    let out = std::process::Command::new("cargo")
        .args(["rustc", "--offline", "--lib", "--features", "levenshtein", "--target-dir", &target, "--", "-F", "unsafe_code"])
        .current_dir(&repo)
        .env("RUSTFLAGS", "--cfg burntsushi_fst_verif")
        .env("CARGO_NET_OFFLINE", "true")
        .output();
    let secs = t0.elapsed().as_secs_f64();
    match out {
        Err(err) => Err(format!("could not run the unsafe_code lint build: {}", err)),
        Ok(o) => {
            let stderr = String::from_utf8_lossy(&o.stderr).to_string();
            // rustc: "error: usage of an `unsafe` block ... note: requested on the command line with `-F unsafe-code`"
            let forbidden = stderr.contains("-F unsafe-code") || stderr.contains("forbid(unsafe_code)") || stderr.lines().any(|l| l.starts_with("error") && l.contains("`unsafe`"));
            if o.status.success() {
                Ok(Ok(secs))
            } else if forbidden {
                Ok(Err(stderr.lines().find(|l| l.contains("unsafe")).unwrap_or("").to_string()))
            } else {
                Err(format!("lint build failed for a reason other than unsafe code: {}", crate::engine::truncate(&stderr, 400)))
            }
        }
    }
}

fn unsafe_lint(e: &Engine) {
    match unsafe_lint_once() {
        Err(why) => e.inconclusive(why),
        Ok(Ok(secs)) => e.extra("auxiliary_unsafe_code_lint", json!({"cmd": "cargo rustc --lib --features levenshtein -- -F unsafe_code", "result": "compiles: no unsafe code in the library", "wall_s": secs, "note": "compiler lint prescribed by the property's observe_at; not a generated check and not part of the case counts"})),
        Ok(Err(first)) => e.report("unsafe-code-lint", json!({"lint": "cargo rustc --lib --features levenshtein -- -F unsafe_code"}), Fail::new("unsafe-code", format!("the library does not compile with -F unsafe_code: {}", first))),
    }
}

/// A long input with a plausible header and footer (filler derived from `seed`).
fn check_long(l: &usize, v: &u64, seed: u64, rec: &mut Rec) -> CheckResult {
    let mut b: Vec<u8> = (0..*l).map(|i| crate::engine::mix(seed ^ *v, i as u64 / 3) as u8).collect();
    let version = 1 + (*v % 3);
    b[..8].copy_from_slice(&version.to_le_bytes());
    let end = if version >= 3 { *l - 4 } else { *l };
    let root: u64 = match *v {
        0 | 1 | 2 => (end - 17) as u64,
        3 => 0,
        4 => u64::MAX - 3,
        _ => (*l as u64) + 5,
    };
    b[end - 8..end].copy_from_slice(&root.to_le_bytes());
    b[end - 16..end - 8].copy_from_slice(&(*l as u64 * 3).to_le_bytes());
    check_bytes(&b, rec)
}

pub fn run(e: &Engine) {
    e.set_rule("cases are byte strings: (1) an exhaustive header/footer grid for every length 0..64 x 9 version values x 80 root addresses (0,1,15,16,17, L-40..L+10, 2^32, 2^63, u64::MAX-21..u64::MAX) x 3 key counts x 3 fillers; (2) random byte strings biased toward lengths 30..40; (3) every truncation and every single-byte xor of valid FSTs (small shapes and the golden files) plus insertions and appended junk; oracle under catch_unwind: Fst::new, Map::new, Set::new and Fst/Map/Set::map_data onto the input never panic (whether they agree with each other on malformed input is recorded, not required); on Ok: len, is_empty, fst_type, size, as_bytes, to_vec, verify never panic, size()==input length, as_bytes()==input; non-trivial = input of length >= 36 with a supported version or of length 32..35 (gets past the gates); distinct by content hash");
    e.assume("root(), get, stream on malformed-but-openable input may panic (documented) and are not asserted; the harness is built with debug assertions and overflow checks on, so arithmetic overflow in the opening path would also be reported");
    let seed = e.seed;
    e.run_enum("header-footer-grid", 65 * 9 * 80 * 3 * 3, |idx, rec| {
        let b = grid_case(idx, seed);
        crate::engine::guarded(|| check_bytes(&b, rec)).map_err(|f| (json!({"bytes": hex(&b)}), f))
    });
    e.run_prop(
        "random-byte-strings",
        e.tier.pick(1_000_000, 20_000_000),
        || {
            let len = prop_oneof![4 => 28usize..=44, 2 => 0usize..=100, 1 => 100usize..=600];
            (len, any::<u64>(), prop_oneof![3 => 1u64..=3, 1 => any::<u64>()], any::<bool>()).prop_map(|(len, s, version, header)| {
                let mut b: Vec<u8> = (0..len).map(|j| crate::engine::mix(s, j as u64) as u8).collect();
                if header {
                    for (k, x) in version.to_le_bytes().iter().enumerate() {
                        if k < b.len() {
                            b[k] = *x;
                        }
                    }
                }
                b
            })
        },
        |b| json!({"bytes": hex(b)}),
        |b, rec| check_bytes(b, rec),
    );
    // long inputs: lengths around 2^16, 2^24 (and a few in between), supported versions, varied footers
    let lens: Vec<usize> = [65_530usize, 65_535, 65_536, 65_537, 65_538, 65_539, 65_540, 131_072, 1 << 20, (1 << 24) - 1, 1 << 24, (1 << 24) + 1, (1 << 24) + 4].to_vec();
    let long_cases: Vec<(usize, u64)> = lens.iter().flat_map(|&l| (0..6u64).map(move |v| (l, v))).collect();
    e.run_list("long-inputs-around-2^16-and-2^24", &long_cases, |(l, v)| json!({"long_len": l, "variant": v, "data_seed": seed.to_string()}), |(l, v), rec| check_long(l, v, seed, rec));
    // (3) every truncation and every single-byte mutation of valid files
    let mut files: Vec<Vec<u8>> = vec![];
    for inp in [
        FstInput::new(gen::Front::RawInsert, None, vec![]),
        FstInput::new(gen::Front::RawInsert, None, vec![(vec![], 0)]),
        FstInput::new(gen::Front::RawInsert, None, vec![(vec![], 5), (b"a".to_vec(), 7)]),
        FstInput::new(gen::Front::MapBuilder, None, gen::enum_values(3, &gen::u2())),
        FstInput::new(gen::Front::SetBuilder, None, gen::enum_values(0, &gen::u3())),
        FstInput::new(gen::Front::MapBuilder, None, (0u8..40).map(|b| (vec![b'k', b * 3], b as u64 * 1000)).collect()),
    ] {
        files.push(gen::build(&inp).expect("small build").bytes);
    }
    for name in ["months", "fanout33", "maxvalues", "empty", "only-empty-key", "one-key", "empty-key-5"] {
        for v in [1, 2, 3] {
            if let Ok(b) = std::fs::read(format!("{}/golden/{}.v{}.fst", VERIF_DIR, name, v)) {
                files.push(b);
            }
        }
    }
    let mut offsets = vec![0u64];
    for f in &files {
        offsets.push(offsets.last().unwrap() + f.len() as u64 + 1);
    }
    let files_ref = &files;
    let offsets_ref = &offsets;
    e.run_enum("every-truncation-and-byte-xor-of-valid-files", *offsets.last().unwrap(), |idx, rec| {
        let fi = offsets_ref.iter().rposition(|&o| o <= idx).unwrap();
        let pos = (idx - offsets_ref[fi]) as usize;
        let orig = &files_ref[fi];
        let t = orig[..pos].to_vec();
        crate::engine::guarded(|| check_bytes(&t, rec)).map_err(|f| (json!({"bytes": hex(&t)}), f))?;
        if pos < orig.len() {
            for x in [1u8, 2, 4, 8, 16, 32, 64, 128, 0xff, 0x7f, 3] {
                let mut m = orig.clone();
                m[pos] ^= x;
                crate::engine::guarded(|| check_bytes(&m, rec)).map_err(|f| (json!({"bytes": hex(&m)}), f))?;
            }
        }
        Ok(())
    });
    e.run_prop(
        "random-fsts-truncated-mutated-extended",
        e.tier.pick(300_000, 5_000_000),
        || (gen::fst_input(20, 100), 0u8..4, any::<u32>(), any::<u8>()).prop_map(|(input, op, pos, byte)| MutCase { input, op, pos, byte }),
        |c| c.to_json(),
        check_mut,
    );
    if e.tier == crate::engine::Tier::Thorough {
        crate::fuzzrun::campaign(e, "open_verify", 3_000_000, 700);
    }
    unsafe_lint(e);
    for cls in ["opened_verify_error"] {
        // a stricter open turns these away earlier
        e.expect_class(cls, 1);
    }
    for cls in ["rejected", "opened_and_verified", "past_the_length_and_version_gates"] {
        e.require_class(cls, 1);
    }
}

pub fn replay(_sub: &str, case: &Value) -> Option<CheckResult> {
    let mut rec = Rec::new(0);
    Some(crate::engine::guarded(|| {
        if let Some(b) = case.get("bytes") {
            check_bytes(&unhex(b.as_str().ok_or_else(bad)?).ok_or_else(bad)?, &mut rec)
        } else if case.get("lint").is_some() {
            match unsafe_lint_once() {
                Ok(Ok(_)) => Ok(()),
                Ok(Err(first)) => Err(Fail::new("unsafe-code", format!("the library does not compile with -F unsafe_code: {}", first))),
                Err(why) => Err(Fail::new("harness-io", why)),
            }
        } else if let Some(l) = case.get("long_len").and_then(|x| x.as_u64()) {
            let v = case.get("variant").and_then(|x| x.as_u64()).ok_or_else(bad)?;
            let seed: u64 = case.get("data_seed").and_then(|x| x.as_str()).and_then(|x| x.parse().ok()).ok_or_else(bad)?;
            check_long(&(l as usize), &v, seed, &mut rec)
        } else {
            check_mut(&MutCase::from_json(case).ok_or_else(bad)?, &mut rec)
        }
    }))
}
