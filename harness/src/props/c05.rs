//! C05 Set operations over ordered streams equal their mathematical
//! definitions.

use std::collections::{BTreeMap, BTreeSet};

use fst::automaton::Str;
use fst::raw::{Fst, IndexedValue};
use fst::{Automaton, IntoStreamer, Streamer};
use proptest::prelude::*;
use serde_json::{json, Value};

use crate::engine::{pairs_from_json, pairs_json, show, CheckResult, Engine, Fail, Rec, H};
use crate::gen::{self, KeyStream, MapVecStream, Pairs, VecStream};
use crate::props::c01::bad;

#[derive(Clone, Copy, Debug, PartialEq, Eq)]
pub enum SKind {
    Fst,
    Range,
    Search,
    User,
}

impl SKind {
    fn name(self) -> &'static str {
        match self {
            SKind::Fst => "fst",
            SKind::Range => "range",
            SKind::Search => "search",
            SKind::User => "user",
        }
    }
    fn from_name(s: &str) -> Option<SKind> {
        [SKind::Fst, SKind::Range, SKind::Search, SKind::User].into_iter().find(|k| k.name() == s)
    }
}

#[derive(Clone, Debug)]
pub struct Case {
    /// stream i yields exactly streams[i].1 (keys never start with 'z')
    pub streams: Vec<(SKind, Pairs)>,
}

impl Case {
    fn to_json(&self) -> Value {
        Value::Array(self.streams.iter().map(|(k, p)| json!({"kind": k.name(), "pairs": pairs_json(p)})).collect())
    }
    fn from_json(v: &Value) -> Option<Case> {
        let streams: Option<Vec<(SKind, Pairs)>> = v
            .as_array()?
            .iter()
            .map(|s| Some((SKind::from_name(s.get("kind")?.as_str()?)?, pairs_from_json(s.get("pairs")?)?)))
            .collect();
        Some(Case { streams: streams? })
    }
    fn show(&self) -> String {
        self.streams
            .iter()
            .enumerate()
            .map(|(i, (k, p))| format!("#{}:{}{}", i, k.name(), crate::oracle::keys_show(p)))
            .collect::<Vec<_>>()
            .join(" ")
    }
}

#[derive(Clone, Copy, Debug, PartialEq, Eq)]
enum Op {
    Union,
    Intersection,
    Difference,
    SymDiff,
}

type Expected = Vec<(Vec<u8>, BTreeSet<(usize, u64)>)>;

fn expected(models: &[BTreeMap<Vec<u8>, u64>], op: Op) -> Expected {
    let mut all: BTreeSet<&Vec<u8>> = BTreeSet::new();
    for m in models {
        all.extend(m.keys());
    }
    let k = models.len();
    let mut out = vec![];
    for key in all {
        let present: Vec<(usize, u64)> = models.iter().enumerate().filter_map(|(i, m)| m.get(key).map(|v| (i, *v))).collect();
        let keep = match op {
            Op::Union => !present.is_empty(),
            Op::Intersection => present.len() == k,
            Op::SymDiff => present.len() % 2 == 1,
            Op::Difference => present.len() == 1 && present[0].0 == 0,
        };
        if keep {
            let ivs: BTreeSet<(usize, u64)> = match op {
                Op::Difference => present.into_iter().filter(|p| p.0 == 0).collect(),
                _ => present.into_iter().collect(),
            };
            out.push((key.clone(), ivs));
        }
    }
    out
}

fn ivset(ivs: &[IndexedValue]) -> (BTreeSet<(usize, u64)>, usize) {
    (ivs.iter().map(|iv| (iv.index, iv.value)).collect(), ivs.len())
}

fn cmp_result(what: &str, case: &Case, got: &[(Vec<u8>, Vec<IndexedValue>)], want: &Expected, values: bool) -> CheckResult {
    let gk: Vec<&Vec<u8>> = got.iter().map(|g| &g.0).collect();
    let wk: Vec<&Vec<u8>> = want.iter().map(|w| &w.0).collect();
    vensure!(
        gk == wk,
        "setop-keys",
        "{} yields keys [{}] but the definition gives [{}]; streams: {}",
        what,
        gk.iter().map(|k| show(k)).collect::<Vec<_>>().join(","),
        wk.iter().map(|k| show(k)).collect::<Vec<_>>().join(","),
        case.show()
    );
    if values {
        for (g, w) in got.iter().zip(want.iter()) {
            let (set, n) = ivset(&g.1);
            vensure!(
                set == w.1 && n == w.1.len(),
                "setop-indexed-values",
                "{} key {} carries {:?} but the streams containing it are {:?}; streams: {}",
                what,
                show(&g.0),
                g.1.iter().map(|iv| (iv.index, iv.value)).collect::<Vec<_>>(),
                w.1,
                case.show()
            );
        }
    }
    Ok(())
}

type NotZ = fst::automaton::Complement<fst::automaton::StartsWith<Str<'static>>>;
fn not_z() -> NotZ {
    Str::new("z").starts_with().complement()
}

/// The FST backing stream i: its content plus marker keys starting with 'z'
/// for the range and search kinds.
fn backing(kind: SKind, pairs: &Pairs) -> Result<Vec<u8>, String> {
    let mut ps = pairs.clone();
    if matches!(kind, SKind::Range | SKind::Search) {
        ps.push((b"z".to_vec(), 77));
        ps.push((b"za".to_vec(), 78));
        ps.push((b"zz".to_vec(), u64::MAX));
    }
    gen::build_plain(&ps, false)
}

pub fn check(c: &Case, rec: &mut Rec) -> CheckResult {
    // the FSTs here only carry the streams' content: a small node cache avoids the
    // 1 MB allocation of the default geometry for each of the k + k^2 builds
    fst::raw::verif::set_registry_geometry(Some((64, 2)));
    let r = check_inner(c, rec);
    fst::raw::verif::set_registry_geometry(None);
    r
}

fn check_inner(c: &Case, rec: &mut Rec) -> CheckResult {
    let k = c.streams.len();
    let models: Vec<BTreeMap<Vec<u8>, u64>> = c.streams.iter().map(|(_, p)| p.iter().cloned().collect()).collect();
    let mut fsts: Vec<Fst<Vec<u8>>> = vec![];
    for (kind, p) in &c.streams {
        let bytes = backing(*kind, p).map_err(|e| Fail::new("build-error", e))?;
        fsts.push(Fst::new(bytes).map_err(|e| Fail::new("open-failed", format!("{:?}", e)))?);
    }
    let maps: Vec<fst::Map<Vec<u8>>> = fsts.iter().map(|f| fst::Map::new(f.as_bytes().to_vec()).unwrap()).collect();
    let sets: Vec<fst::Set<Vec<u8>>> = fsts.iter().map(|f| fst::Set::new(f.as_bytes().to_vec()).unwrap()).collect();
    let lows: Vec<Vec<u8>> = c.streams.iter().map(|(_, p)| p.first().map(|x| x.0.clone()).unwrap_or_default()).collect();

    let raw_builder = || {
        let mut op = fst::raw::OpBuilder::new();
        for (i, (kind, p)) in c.streams.iter().enumerate() {
            match kind {
                SKind::Fst => op.push(&fsts[i]),
                SKind::Range => op.push(fsts[i].range().ge(&lows[i]).lt("z")),
                SKind::Search => op.push(fsts[i].search(not_z())),
                SKind::User => op.push(VecStream::new(p)),
            }
        }
        op
    };
    let map_builder = || {
        let mut op = fst::map::OpBuilder::new();
        for (i, (kind, p)) in c.streams.iter().enumerate() {
            match kind {
                SKind::Fst => op.push(&maps[i]),
                SKind::Range => op.push(maps[i].range().ge(&lows[i]).lt("z")),
                SKind::Search => op.push(maps[i].search(not_z())),
                SKind::User => op.push(MapVecStream(VecStream::new(p))),
            }
        }
        op
    };
    let set_builder = || {
        let mut op = fst::set::OpBuilder::new();
        for (i, (kind, p)) in c.streams.iter().enumerate() {
            match kind {
                SKind::Fst => op.push(&sets[i]),
                SKind::Range => op.push(sets[i].range().ge(&lows[i]).lt("z")),
                SKind::Search => op.push(sets[i].search(not_z())),
                SKind::User => op.push(KeyStream { items: p, pos: 0 }),
            }
        }
        op
    };

    macro_rules! drain {
        ($s:expr) => {{
            let mut s = $s;
            let mut out: Vec<(Vec<u8>, Vec<IndexedValue>)> = vec![];
            while let Some((k, ivs)) = s.next() {
                out.push((k.to_vec(), ivs.to_vec()));
                if out.len() > 10_000 {
                    break;
                }
            }
            let again = s.next().is_some();
            (out, again)
        }};
    }
    macro_rules! drain_keys {
        ($s:expr) => {{
            let mut s = $s;
            let mut out: Vec<(Vec<u8>, Vec<IndexedValue>)> = vec![];
            while let Some(k) = s.next() {
                out.push((k.to_vec(), vec![]));
                if out.len() > 10_000 {
                    break;
                }
            }
            let again = s.next().is_some();
            (out, again)
        }};
    }

    for op in [Op::Union, Op::Intersection, Op::Difference, Op::SymDiff] {
        rec.eval();
        let want = expected(&models, op);
        let (got, again) = match op {
            Op::Union => drain!(raw_builder().union()),
            Op::Intersection => drain!(raw_builder().intersection()),
            Op::Difference => drain!(raw_builder().difference()),
            Op::SymDiff => drain!(raw_builder().symmetric_difference()),
        };
        cmp_result(&format!("raw {:?}", op), c, &got, &want, true)?;
        vensure!(!again, "setop-restart", "raw {:?} yields items after returning None", op);
        let (got, _) = match op {
            Op::Union => drain!(map_builder().union()),
            Op::Intersection => drain!(map_builder().intersection()),
            Op::Difference => drain!(map_builder().difference()),
            Op::SymDiff => drain!(map_builder().symmetric_difference()),
        };
        cmp_result(&format!("map {:?}", op), c, &got, &want, true)?;
        let (got, _) = match op {
            Op::Union => drain_keys!(set_builder().union()),
            Op::Intersection => drain_keys!(set_builder().intersection()),
            Op::Difference => drain_keys!(set_builder().difference()),
            Op::SymDiff => drain_keys!(set_builder().symmetric_difference()),
        };
        cmp_result(&format!("set {:?}", op), c, &got, &want, false)?;
    }
    // add()/collect()/extend() construction paths on homogeneous inputs
    if c.streams.iter().all(|(kind, _)| *kind == SKind::Fst) {
        let want = expected(&models, Op::Union);
        let (got, _) = drain!(fsts.iter().collect::<fst::raw::OpBuilder>().union());
        cmp_result("raw collect().union()", c, &got, &want, true)?;
        let mut ob = fst::map::OpBuilder::new();
        ob.extend(maps.iter());
        let (got, _) = drain!(ob.union());
        cmp_result("map extend().union()", c, &got, &want, true)?;
        let (got, _) = drain_keys!(sets.iter().collect::<fst::set::OpBuilder>().intersection());
        cmp_result("set collect().intersection()", c, &got, &expected(&models, Op::Intersection), false)?;
    }
    // Fst::op() / Map::op() / Set::op(): a builder that already holds `self` (which may be empty,
    // and may be the only stream); the other streams join through push/add by their kind
    if c.streams[0].0 == SKind::Fst {
        for op in [Op::Union, Op::Intersection, Op::Difference, Op::SymDiff] {
            let want = expected(&models, op);
            let mut ob = fsts[0].op();
            for (i, (kind, p)) in c.streams.iter().enumerate().skip(1) {
                match kind {
                    SKind::Fst => ob = ob.add(&fsts[i]),
                    SKind::Range => ob.push(fsts[i].range().ge(&lows[i]).lt("z")),
                    SKind::Search => ob.push(fsts[i].search(not_z())),
                    SKind::User => ob.push(VecStream::new(p)),
                }
            }
            let (got, _) = match op {
                Op::Union => drain!(ob.union()),
                Op::Intersection => drain!(ob.intersection()),
                Op::Difference => drain!(ob.difference()),
                Op::SymDiff => drain!(ob.symmetric_difference()),
            };
            cmp_result(&format!("Fst::op() {:?}", op), c, &got, &want, true)?;
            let mut ob = maps[0].op();
            for (i, (kind, p)) in c.streams.iter().enumerate().skip(1) {
                match kind {
                    SKind::Fst => ob = ob.add(&maps[i]),
                    SKind::Range => ob.push(maps[i].range().ge(&lows[i]).lt("z")),
                    SKind::Search => ob.push(maps[i].search(not_z())),
                    SKind::User => ob.push(MapVecStream(VecStream::new(p))),
                }
            }
            let (got, _) = match op {
                Op::Union => drain!(ob.union()),
                Op::Intersection => drain!(ob.intersection()),
                Op::Difference => drain!(ob.difference()),
                Op::SymDiff => drain!(ob.symmetric_difference()),
            };
            cmp_result(&format!("Map::op() {:?}", op), c, &got, &want, true)?;
            let mut ob = sets[0].op();
            for (i, (kind, p)) in c.streams.iter().enumerate().skip(1) {
                match kind {
                    SKind::Fst => ob = ob.add(&sets[i]),
                    SKind::Range => ob.push(sets[i].range().ge(&lows[i]).lt("z")),
                    SKind::Search => ob.push(sets[i].search(not_z())),
                    SKind::User => ob.push(KeyStream { items: p, pos: 0 }),
                }
            }
            let (got, _) = match op {
                Op::Union => drain_keys!(ob.union()),
                Op::Intersection => drain_keys!(ob.intersection()),
                Op::Difference => drain_keys!(ob.difference()),
                Op::SymDiff => drain_keys!(ob.symmetric_difference()),
            };
            cmp_result(&format!("Set::op() {:?}", op), c, &got, &want, false)?;
        }
        if !rec.muted {
            rec.class("op()_receiver");
            if models[0].is_empty() {
                rec.class("op()_receiver_empty");
            }
        }
    }
    if c.streams.iter().all(|(kind, _)| *kind == SKind::Fst) {
        let mut ob = fst::raw::OpBuilder::new();
        for f in &fsts {
            ob = ob.add(f);
        }
        let (got, _) = drain!(ob.symmetric_difference());
        cmp_result("raw add().symmetric_difference()", c, &got, &expected(&models, Op::SymDiff), true)?;
    }
    // predicates, all ordered pairs
    for i in 0..k {
        // receivers must be whole FSTs: use plain builds of the content
        let fa = Fst::new(gen::build_plain(&c.streams[i].1, false).map_err(|e| Fail::new("build-error", e))?).unwrap();
        let sa = fst::Set::new(fa.as_bytes().to_vec()).unwrap();
        for j in 0..k {
            let a: BTreeSet<&Vec<u8>> = models[i].keys().collect();
            let b: BTreeSet<&Vec<u8>> = models[j].keys().collect();
            macro_rules! arg_raw {
                () => {
                    fsts[j].range().ge(&lows[j]).lt("z")
                };
            }
            let (d, sub, sup) = (a.is_disjoint(&b), a.is_subset(&b), a.is_superset(&b));
            let got = (fa.is_disjoint(arg_raw!()), fa.is_subset(arg_raw!()), fa.is_superset(arg_raw!()));
            vensure!(got == (d, sub, sup), "predicates", "raw (is_disjoint,is_subset,is_superset) of stream #{} against #{} = {:?} but set theory says {:?}; streams: {}", i, j, got, (d, sub, sup), c.show());
            let got = (
                sa.is_disjoint(sets[j].range().ge(&lows[j]).lt("z")),
                sa.is_subset(sets[j].range().ge(&lows[j]).lt("z")),
                sa.is_superset(sets[j].range().ge(&lows[j]).lt("z")),
            );
            vensure!(got == (d, sub, sup), "predicates", "Set (is_disjoint,is_subset,is_superset) of stream #{} against #{} = {:?} but set theory says {:?}; streams: {}", i, j, got, (d, sub, sup), c.show());
            if c.streams[j].0 == SKind::Fst {
                let got = (sa.is_disjoint(&sets[j]), sa.is_subset(&sets[j]), sa.is_superset(&sets[j]));
                vensure!(got == (d, sub, sup), "predicates", "Set predicates with &Set argument = {:?}, set theory says {:?}; streams: {}", got, (d, sub, sup), c.show());
            }
        }
    }
    if !rec.muted {
        let mut counts: BTreeMap<&Vec<u8>, usize> = BTreeMap::new();
        for m in &models {
            for key in m.keys() {
                *counts.entry(key).or_insert(0) += 1;
            }
        }
        let shared = counts.values().any(|&n| n >= 2);
        let private = counts.values().any(|&n| n == 1);
        rec.class(&format!("k={}", k));
        for (kind, _) in &c.streams {
            rec.class(&format!("stream_kind:{}", kind.name()));
        }
        if c.streams.iter().any(|(_, p)| p.is_empty()) {
            rec.class("has_empty_stream");
        }
        if c.streams.iter().any(|(_, p)| p.first().map(|x| x.0.is_empty()).unwrap_or(false)) {
            rec.class("has_empty_key");
        }
        if k >= 2 && (0..k).any(|i| (0..i).any(|j| c.streams[i].1 == c.streams[j].1 && !c.streams[i].1.is_empty())) {
            rec.class("identical_streams");
        }
        if k >= 2 && shared && private {
            let mut h = H::new();
            for (kind, p) in &c.streams {
                h = h.u(*kind as u64).pairs(p);
            }
            rec.nontrivial(h.get());
            if rec.wants_sample() {
                rec.sample(json!(c.show()));
            }
        }
    }
    Ok(())
}

fn kind_strategy() -> impl Strategy<Value = SKind> {
    prop_oneof![Just(SKind::Fst), Just(SKind::Range), Just(SKind::Search), Just(SKind::User)]
}

fn stream_pairs() -> BoxedStrategy<Pairs> {
    let byte = prop_oneof![4 => Just(b'a'), 4 => Just(b'b'), 1 => Just(b'c'), 1 => Just(0u8), 1 => Just(b'y'), 1 => Just(1u8)];
    proptest::collection::vec((proptest::collection::vec(byte, 0..=4), prop_oneof![0u64..4, gen::value_strategy()]), 0..14)
        .prop_map(gen::sort_dedup)
        .boxed()
}

pub fn run(e: &Engine) {
    e.set_rule("cases are k-tuples (k = 1..6) of strictly increasing key/value streams, each realised as a whole FST, a range stream, a search stream or a user Streamer; all four operations through raw, map and set OpBuilders (push/add/extend/collect) plus is_disjoint/is_subset/is_superset for all ordered pairs; evaluations counts (tuple, operation); non-trivial = k >= 2 with a key shared by >= 2 streams and a key private to one; distinct by the tuple (kinds and contents)");
    e.assume("set-theoretic definitions over BTreeMap models are the specification; IndexedValue lists are compared as sets (the property does not order them)");
    let uni: Vec<Vec<u8>> = vec![vec![], b"a".to_vec(), b"ab".to_vec(), b"b".to_vec()];
    // all k-tuples (k <= 3) of subsets x {tie, differ} values x 3 kind assignments
    e.run_enum("all-tuples-k<=3-of-4-key-subsets", (16 + 256 + 4096) * 2 * 3, |idx, rec| {
        let kinds_variant = idx % 3;
        let tie = (idx / 3) % 2 == 0;
        let mut t = idx / 6;
        let k = if t < 16 {
            1
        } else if t < 16 + 256 {
            t -= 16;
            2
        } else {
            t -= 16 + 256;
            3
        };
        let mut streams = vec![];
        for i in 0..k {
            let mask = (t >> (4 * i)) & 15;
            let keys = gen::subset(&uni, mask);
            let pairs: Pairs = keys.into_iter().enumerate().map(|(j, key)| (key, if tie { j as u64 + 1 } else { (i * 10 + j) as u64 })).collect();
            let kind = match kinds_variant {
                0 => SKind::Fst,
                1 => SKind::User,
                _ => [SKind::Range, SKind::Search, SKind::Fst, SKind::User][((mask as usize) + i) % 4],
            };
            streams.push((kind, pairs));
        }
        let c = Case { streams };
        crate::engine::guarded(|| check(&c, rec)).map_err(|f| (c.to_json(), f))
    });
    e.run_prop(
        "random-tuples-k<=6",
        e.tier.pick(100_000, 2_000_000),
        || {
            (proptest::collection::vec((kind_strategy(), stream_pairs(), prop::bool::weighted(0.15)), 1..=6)).prop_map(|v| {
                let mut streams: Vec<(SKind, Pairs)> = vec![];
                for (kind, pairs, dup) in v {
                    if dup && !streams.is_empty() {
                        let prev = streams[streams.len() - 1].1.clone();
                        streams.push((kind, prev));
                    } else {
                        streams.push((kind, pairs));
                    }
                }
                Case { streams }
            })
        },
        |c| c.to_json(),
        check,
    );
    e.run_prop(
        "many-streams-long-keys",
        e.tier.pick(4_000, 100_000),
        || {
            let longkey = (proptest::collection::vec(prop_oneof![Just(b'a'), Just(b'b')], 0..=2), prop_oneof![Just(0usize), Just(63), Just(64), Just(65), Just(130)]).prop_map(|(h, pad)| {
                let mut k = h;
                k.extend(std::iter::repeat(b'm').take(pad));
                k
            });
            let pairs = proptest::collection::vec((longkey, prop_oneof![Just(u64::MAX), Just(1u64 << 32), Just((1u64 << 32) - 1), 0u64..3]), 0..8).prop_map(gen::sort_dedup);
            prop_oneof![
                4 => proptest::collection::vec((kind_strategy(), pairs.clone()), 7..=20),
                // more streams than fit a machine word's worth of flags, or a byte's
                1 => proptest::collection::vec((kind_strategy(), pairs), 31..=70),
                // few streams, long keys sharing long prefixes with differing lengths and tails
                3 => proptest::collection::vec((kind_strategy(), gen::with_long_keys()), 2..=5),
            ]
            .prop_map(|streams| Case { streams })
        },
        |c| c.to_json(),
        check,
    );
    e.run_prop(
        "hundreds-of-streams",
        e.tier.pick(48, 1_000),
        || {
            let key = proptest::collection::vec(prop_oneof![Just(b'a'), Just(b'b'), Just(b'c')], 0..=3);
            let pairs = proptest::collection::vec((key, 0u64..3), 0..5).prop_map(gen::sort_dedup);
            proptest::collection::vec((kind_strategy(), pairs), 250..=260).prop_map(|streams| Case { streams })
        },
        |c| c.to_json(),
        check,
    );
    for cls in ["op()_receiver_empty", "k=1", "k=6", "has_empty_stream", "has_empty_key", "identical_streams", "stream_kind:range", "stream_kind:search", "stream_kind:user", "stream_kind:fst"] {
        e.require_class(cls, 1);
    }
}

pub fn replay(_sub: &str, case: &Value) -> Option<CheckResult> {
    let mut rec = Rec::new(0);
    Some(crate::engine::guarded(|| check(&Case::from_json(case).ok_or_else(bad)?, &mut rec)))
}
