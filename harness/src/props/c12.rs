//! C12 Equivalent sub-automata are shared: minimal whenever the node cache
//! suffices.

use std::collections::{BTreeMap, HashMap};

use proptest::prelude::*;
use serde_json::{json, Value};

use crate::engine::{CheckResult, Engine, Fail, Rec, Tier};
use crate::gen::{self, FstInput, Pairs};
use crate::props::c01::bad;
use crate::refcodec::{self, Decoded};

/// Trie of the keys and its bottom-up hash-consed quotient (the unique
/// minimal acyclic DFA of a finite set).
pub struct MinDfa {
    pub trie_nodes: usize,
    /// canonical states: (is_final, edges (byte, state id)); ids are dense
    pub states: Vec<(bool, Vec<(u8, usize)>)>,
    pub root: usize,
}

pub fn mindfa(keys: &[Vec<u8>]) -> MinDfa {
    // trie with children in insertion (= sorted) order
    struct T {
        fin: bool,
        edges: Vec<(u8, usize)>,
    }
    let mut t: Vec<T> = vec![T { fin: false, edges: vec![] }];
    for k in keys {
        let mut cur = 0;
        for &b in k {
            let next = match t[cur].edges.last() {
                Some(&(lb, idx)) if lb == b => idx,
                _ => {
                    t.push(T { fin: false, edges: vec![] });
                    let idx = t.len() - 1;
                    t[cur].edges.push((b, idx));
                    idx
                }
            };
            cur = next;
        }
        t[cur].fin = true;
    }
    // children always have larger indices than parents: go backwards
    let mut canon: Vec<usize> = vec![0; t.len()];
    let mut table: HashMap<(bool, Vec<(u8, usize)>), usize> = HashMap::new();
    let mut states: Vec<(bool, Vec<(u8, usize)>)> = vec![];
    for i in (0..t.len()).rev() {
        let sig = (t[i].fin, t[i].edges.iter().map(|&(b, c)| (b, canon[c])).collect::<Vec<_>>());
        let id = match table.get(&sig) {
            Some(&id) => id,
            None => {
                let id = states.len();
                states.push(sig.clone());
                table.insert(sig, id);
                id
            }
        };
        canon[i] = id;
    }
    MinDfa { trie_nodes: t.len(), states, root: canon[0] }
}

/// Number of emitted nodes incl. the shared sentinel if it is used.
fn emitted(d: &Decoded) -> usize {
    d.nodes.len() + d.uses_sentinel as usize
}

fn isomorphic(d: &Decoded, m: &MinDfa) -> Result<(), String> {
    // parallel DFS, building a bijection addr <-> min state
    let mut fwd: HashMap<usize, usize> = HashMap::new();
    let mut bwd: HashMap<usize, usize> = HashMap::new();
    let mut stack = vec![(d.root, m.root)];
    while let Some((a, s)) = stack.pop() {
        match (fwd.get(&a), bwd.get(&s)) {
            (Some(&s2), _) if s2 != s => return Err(format!("node@{} corresponds to two different minimal states", a)),
            (_, Some(&a2)) if a2 != a => return Err(format!("two emitted nodes (@{} and @{}) are equivalent: both correspond to the same state of the minimal DFA", a, a2)),
            (Some(_), Some(_)) => continue,
            _ => {}
        }
        fwd.insert(a, s);
        bwd.insert(s, a);
        let (fin, edges): (bool, Vec<(u8, usize)>) = if a == 0 { (true, vec![]) } else { (d.nodes[&a].is_final, d.nodes[&a].trans.iter().map(|t| (t.0, t.2)).collect()) };
        let (mfin, medges) = &m.states[s];
        if fin != *mfin || edges.len() != medges.len() {
            return Err(format!("node@{} differs from its minimal-DFA counterpart (final {} vs {}, {} vs {} transitions)", a, fin, mfin, edges.len(), medges.len()));
        }
        for ((b1, t1), (b2, t2)) in edges.iter().zip(medges.iter()) {
            if b1 != b2 {
                return Err(format!("node@{}: transition on byte {} vs {}", a, b1, b2));
            }
            stack.push((*t1, *t2));
        }
    }
    Ok(())
}

pub fn check(input: &FstInput, rec: &mut Rec) -> CheckResult {
    rec.eval();
    let built = gen::build(input).map_err(|e| Fail::new("build-error", e))?;
    let keys: Vec<Vec<u8>> = input.pairs.iter().map(|p| p.0.clone()).collect();
    let d = match refcodec::decode(&built.bytes, 0) {
        Ok(d) => d,
        Err(e) => vfail!("format", "builder output does not decode: {}", e),
    };
    let m = mindfa(&keys);
    let em = emitted(&d);
    vensure!(em <= m.trie_nodes, "more-than-trie", "{} nodes emitted but the prefix trie of the keys has only {}; keys {}", em, m.trie_nodes, crate::oracle::keys_show(&input.pairs));
    let is_set = input.pairs.iter().all(|p| p.1 == 0);
    // A premise that does not rely on what the cache reports about itself: when the number of
    // distinct nodes does not exceed the cells of a single row, no row can ever have had to
    // evict, whatever the hash function does.
    let cols = input.geom.map(|g| g.1).unwrap_or(2);
    let distinct_sigs = {
        let mut sigs: std::collections::HashSet<(bool, u64, Vec<(u8, u64, usize)>)> = std::collections::HashSet::new();
        for n in d.nodes.values() {
            // (the root is compiled last: its arrival in the cache cannot cost an earlier node its place)
            if n.addr != d.root {
                sigs.insert((n.is_final, n.final_output, n.trans.clone()));
            }
        }
        sigs.len()
    };
    let cannot_overflow = input.geom.map(|g| g.0 >= 1).unwrap_or(true) && distinct_sigs <= cols;
    if cannot_overflow && built.evictions > 0 && !rec.muted {
        rec.class("cache_reported_evictions_it_did_not_have_to_make");
    }
    if built.evictions == 0 || cannot_overflow {
        if is_set {
            vensure!(em == m.states.len(), "not-minimal", "the cache did not have to evict, yet {} nodes were emitted while the minimal DFA of the keys has {} states; geometry {:?}; keys {}", em, m.states.len(), input.geom, crate::oracle::keys_show(&input.pairs));
            if let Err(e) = isomorphic(&d, &m) {
                vfail!("not-minimal", "the cache did not have to evict, yet the emitted automaton is not the minimal DFA: {}; keys {}", e, crate::oracle::keys_show(&input.pairs));
            }
        }
        // maps (and sets): no two emitted nodes with the same signature
        let mut seen: HashMap<(bool, u64, Vec<(u8, u64, usize)>), usize> = HashMap::new();
        for n in d.nodes.values() {
            let sig = (n.is_final, n.final_output, n.trans.clone());
            if let Some(prev) = seen.insert(sig, n.addr) {
                vfail!("duplicate-node", "the cache did not have to evict, yet nodes @{} and @{} are identical (final={}, final_output={}, {} transitions); geometry {:?}; keys {}", prev, n.addr, n.is_final, n.final_output, n.trans.len(), input.geom, crate::oracle::keys_show(&input.pairs));
            }
            vensure!(!(n.is_final && n.final_output == 0 && n.trans.is_empty()), "duplicate-node", "node @{} duplicates the shared empty-final sentinel", n.addr);
        }
    }
    if !rec.muted {
        rec.class(if built.evictions == 0 { "zero_evictions" } else { "had_evictions" });
        if input.geom.is_none() {
            rec.class(if built.evictions == 0 { "default_geometry_zero_evictions" } else { "default_geometry_had_evictions" });
        }
        rec.class(if is_set { "set" } else { "map" });
        if built.evictions == 0 && m.states.len() < m.trie_nodes {
            rec.nontrivial(input.hash());
            rec.class("zero_evictions_and_sharing_possible");
            if rec.wants_sample() {
                rec.sample(json!({"input": input.sample(), "trie_nodes": m.trie_nodes, "minimal_states": m.states.len(), "emitted": em}));
            }
        }
    }
    Ok(())
}

fn check_corpus(name: &str, rec: &mut Rec) -> Result<Value, Fail> {
    rec.eval();
    let keys = match gen::corpus(name) {
        Some(k) => k,
        None => {
            rec.class("corpus_missing_or_empty(skipped)");
            return Ok(json!({"corpus": name, "skipped": "missing or empty file"}));
        }
    };
    let pairs: Pairs = keys.iter().map(|k| (k.clone(), 0)).collect();
    let input = FstInput::new(gen::Front::SetBuilder, None, pairs);
    let built = gen::build(&input).map_err(|e| Fail::new("build-error", e))?;
    let d = refcodec::decode(&built.bytes, 0).map_err(|e| Fail::new("format", e))?;
    let m = mindfa(&keys);
    let em = emitted(&d);
    if em > m.trie_nodes {
        return Err(Fail::new("more-than-trie", format!("corpus {}: {} nodes emitted, trie has {}", name, em, m.trie_nodes)));
    }
    let achievable = (m.trie_nodes - m.states.len()) as f64;
    let realised = (m.trie_nodes - em) as f64;
    let ratio = if achievable > 0.0 { realised / achievable } else { 1.0 };
    if ratio <= 0.5 {
        return Err(Fail::new("corpus-sharing", format!("corpus {}: only {:.3} of the achievable sharing is realised (trie {}, minimal {}, emitted {})", name, ratio, m.trie_nodes, m.states.len(), em)));
    }
    // the first 3000 keys of the 10 000-key corpora once more, with a single cache row wider than
    // their node count: no row can have had to evict, so the set must come out exactly minimal -
    // whatever the cache reports about itself
    let mut exact = Value::Null;
    if keys.len() <= 10_000 {
        let sub: Vec<Vec<u8>> = keys.iter().take(3000).cloned().collect();
        let ms = mindfa(&sub);
        let wide = FstInput::new(gen::Front::SetBuilder, Some((1, ms.states.len() + 8)), sub.iter().map(|k| (k.clone(), 0)).collect());
        let b2 = gen::build(&wide).map_err(|e| Fail::new("build-error", e))?;
        let d2 = refcodec::decode(&b2.bytes, 0).map_err(|e| Fail::new("format", e))?;
        let em2 = emitted(&d2);
        if em2 != ms.states.len() {
            return Err(Fail::new("not-minimal", format!("the first 3000 keys of corpus {} built with one cache row of {} cells (more than its {} minimal states, so nothing ever had to be evicted) emitted {} nodes; the cache reported {} evictions", name, ms.states.len() + 8, ms.states.len(), em2, b2.evictions)));
        }
        rec.class("corpus_exactly_minimal_under_one_wide_row");
        exact = json!({"keys": sub.len(), "one_row_cells": ms.states.len() + 8, "emitted_nodes": em2, "evictions_reported": b2.evictions});
    }
    rec.nontrivial(crate::engine::fnv(name.as_bytes()));
    rec.class("corpus_checked");
    Ok(json!({"corpus": name, "one_wide_row": exact, "keys": keys.len(), "trie_nodes": m.trie_nodes, "minimal_states": m.states.len(), "emitted_nodes": em, "evictions": built.evictions, "realised_sharing": (ratio * 1000.0).round() / 1000.0}))
}

/// ~450 distinct 256-way nodes with 8-byte outputs between two occurrences of the same tail.
fn fat_input(v: u64) -> FstInput {
    let mut pairs: gen::Pairs = vec![];
    let nfat = 430 + 20 * v as usize;
    let tail = b"tail-shared-by-both-ends";
    let mut k0 = vec![b'0'];
    k0.extend_from_slice(tail);
    pairs.push((k0, 1));
    for i in 0..nfat {
        for b in 0..=255u8 {
            let key = vec![b'1', (i / 250) as u8 + b'a', (i % 250) as u8, b];
            // unrelated 64-bit values: after the common prefix is pushed up, every
            // transition still carries an 8-byte output (node of ~2.8 kB)
            pairs.push((key, crate::engine::mix(i as u64 * 256 + b as u64, 0xfa7 + v)));
        }
    }
    let mut k2 = vec![b'2'];
    k2.extend_from_slice(tail);
    pairs.push((k2, u64::MAX - v));
    FstInput::new(gen::Front::MapBuilder, None, gen::sort_dedup(pairs))
}

pub fn run(e: &Engine) {
    e.set_rule("cases are key sets / maps from the shared shapes (dense, full-byte, fan-out, numeric) under the default cache geometry and hook geometries; the eviction hook is read after each build; when it is 0: sets must have exactly as many emitted nodes (sentinel included) as the independently computed minimal acyclic DFA (hash-consed trie) and be isomorphic to it, and no two emitted nodes may have the same signature (maps and sets); always: emitted nodes <= trie nodes; corpora in /repo/data: realised sharing (trie-emitted)/(trie-minimal) must exceed 0.5; non-trivial = zero-eviction build whose minimal DFA has strictly fewer states than the trie; distinct by input hash");
    e.assume("the no-eviction premise is observed through the cfg(burntsushi_fst_verif) eviction counter; minimality of output placement (transducers) is not claimed");
    // all subsets of U3 as sets under 3 geometries
    e.run_enum("u3-subsets-sets-and-maps", 32768 * 4, |idx, rec| {
        let u3 = gen::u3();
        let mask = idx & 0x7fff;
        let v = idx >> 15;
        let geom = [None, Some((64, 2)), Some((7, 3)), None][v as usize];
        let keys = gen::subset(&u3, mask);
        let (front, pattern) = if v == 3 { (gen::Front::MapBuilder, 5) } else { (gen::Front::SetBuilder, 0) };
        let input = FstInput::new(front, geom, gen::enum_values(pattern, &keys));
        crate::engine::guarded(|| check(&input, rec)).map_err(|f| (input.to_json(), f))
    });
    let geoms = || {
        prop_oneof![
            4 => Just(None),
            1 => Just(Some((64usize, 2usize))),
            1 => Just(Some((64usize, 4usize))),
            1 => Just(Some((7usize, 2usize))),
            1 => Just(Some((1000usize, 1usize))),
            1 => Just(Some((500usize, 3usize))),
        ]
    };
    e.run_prop(
        "random-sets",
        e.tier.pick(60_000, 2_000_000),
        || (gen::small_pairs(60, 100), geoms()).prop_map(|(pairs, geom)| FstInput::new(gen::Front::SetBuilder, geom, pairs)),
        |c| c.to_json(),
        check,
    );
    e.run_prop(
        "random-maps",
        e.tier.pick(40_000, 1_000_000),
        || (gen::small_pairs(60, 100), geoms(), 0usize..gen::MAP_FRONTS.len()).prop_map(|(pairs, geom, fi)| FstInput::new(gen::MAP_FRONTS[fi], geom, pairs)),
        |c| c.to_json(),
        check,
    );
    // larger sets from recipes with a geometry big enough never to evict
    let (ncases, max_n) = match e.tier {
        Tier::Quick => (12, 40_000u64),
        Tier::Thorough => (48, 1_000_000u64),
    };
    e.run_prop(
        "large-sets-under-a-roomy-geometry",
        ncases,
        || crate::props::c01::recipe_strategy(max_n),
        |r| r.to_json(),
        |r, rec| {
            let mut r = r.clone();
            // half sets, half maps (index / hashed values: outputs up to 64 bits, addresses beyond 2^16)
            let map = r.seed % 2 == 1;
            r.values = if map { 1 + (r.seed % 3) as u8 } else { 0 };
            let pairs = r.pairs();
            // roomy cache: collisions are still possible; the premise is observed, not assumed
            let rows = (pairs.len() * 8).max(1000);
            let input = FstInput::new(if map { gen::Front::MapBuilder } else { gen::Front::SetBuilder }, Some((rows, 4)), pairs);
            check(&input, rec)
        },
    );
    // few distinct nodes, large distances: ~450 distinct 256-way nodes with 8-byte outputs
    // (file > 1 MiB, no eviction possible) between two occurrences of the same tail
    let fat: Vec<(u64, FstInput)> = (0..e.tier.pick(2u64, 8)).map(|v| (v, fat_input(v))).collect();
    e.run_list("fat-nodes-between-equal-tails", &fat, |(v, c)| json!({"fat_case": v, "fat_case_keys": c.pairs.len()}), |(_, c), rec| {
        let size = gen::build(c).map(|b| b.bytes.len()).unwrap_or(0);
        if size > (1 << 20) + (1 << 16) {
            rec.class("file_over_1MiB_few_distinct_nodes");
        }
        check(c, rec)
    });
    e.require_class("file_over_1MiB_few_distinct_nodes", 1);
    // two-cell rows (the shipped shape) and at most two distinct nodes below the root: every subset
    // of {xy : x in a..e, y in b..c}, under one-, two-, few- and ten-thousand-row tables
    let two_cell_geoms: [Option<(usize, usize)>; 6] = [Some((1, 2)), Some((2, 2)), Some((7, 2)), Some((64, 2)), Some((1000, 2)), None];
    e.run_enum("two-cell-rows-two-distinct-nodes", 1024 * 6, |idx, rec| {
        let mask = idx % 1024;
        let geom = two_cell_geoms[(idx / 1024) as usize];
        let mut pairs: gen::Pairs = vec![];
        for (i, x) in [b'a', b'b', b'c', b'd', b'e'].iter().enumerate() {
            for (j, y) in [b'b', b'c'].iter().enumerate() {
                if mask >> (i * 2 + j) & 1 == 1 {
                    pairs.push((vec![*x, *y], 0));
                }
            }
        }
        let input = FstInput::new(gen::Front::SetBuilder, geom, pairs);
        crate::engine::guarded(|| check(&input, rec)).map_err(|f| (input.to_json(), f))
    });
    // rows wider than the number of distinct nodes: "did not have to evict" holds by counting,
    // without asking the cache
    e.run_prop(
        "rows-wider-than-the-node-count",
        e.tier.pick(20_000, 400_000),
        || {
            (gen::small_pairs(24, 40), any::<bool>(), prop_oneof![Just((1usize, 400usize)), Just((2, 400)), Just((3, 300)), Just((7, 256)), Just((1, 64)), Just((2, 48))], gen::front_strategy()).prop_map(|(pairs, set, geom, front)| {
                let pairs: gen::Pairs = if set || front.is_set() { pairs.into_iter().map(|p| (p.0, 0)).collect() } else { pairs };
                FstInput::new(front, Some(geom), pairs)
            })
        },
        |c| c.to_json(),
        |c, rec| {
            check(c, rec)?;
            rec.class("row_wider_than_node_count_case");
            Ok(())
        },
    );
    e.run_prop(
        "long-shared-suffixes",
        e.tier.pick(3_000, 100_000),
        || {
            (proptest::collection::vec(proptest::collection::vec(b'a'..=b'd', 1..=3), 2..=5), prop_oneof![Just(100usize), Just(128), Just(129), Just(130), Just(200), 64usize..300], any::<u8>(), geoms())
                .prop_map(|(heads, len, fill, geom)| {
                    let suffix: Vec<u8> = (0..len).map(|i| b'e' + ((i as u8).wrapping_mul(7).wrapping_add(fill) % 5)).collect();
                    let pairs: gen::Pairs = heads.into_iter().map(|mut h| { h.extend_from_slice(&suffix); (h, 0) }).collect();
                    FstInput::new(gen::Front::SetBuilder, geom, gen::sort_dedup(pairs))
                })
        },
        |c| c.to_json(),
        check,
    );
    let corpora = ["words-10000", "words-100000", "wiki-urls-10000", "wiki-urls-100000"];
    let results: std::sync::Mutex<Vec<Value>> = std::sync::Mutex::new(vec![]);
    e.run_list("corpora-sharing-ratio", &corpora, |c| json!({"corpus": c}), |c, rec| {
        let v = check_corpus(c, rec)?;
        results.lock().unwrap().push(v);
        Ok(())
    });
    e.extra("corpora", Value::Array(results.into_inner().unwrap()));
    let z = e.class_count("zero_evictions");
    let h = e.class_count("had_evictions");
    e.extra("zero_eviction_fraction", json!(if z + h > 0 { z as f64 / (z + h) as f64 } else { 0.0 }));
    e.require_class("zero_evictions_and_sharing_possible", 1);
    e.require_class("had_evictions", 1);
    e.require_class("corpus_checked", 1);
    e.require_class("corpus_exactly_minimal_under_one_wide_row", 1);
    // vacuity guard: under the default geometry small inputs must almost never evict
    let dz = e.class_count("default_geometry_zero_evictions");
    let dh = e.class_count("default_geometry_had_evictions");
    if dz + dh > 0 && (dz as f64) < 0.9 * (dz + dh) as f64 {
        e.inconclusive(format!("only {} of {} default-geometry builds had zero evictions: the minimality premise is (nearly) vacuous", dz, dz + dh));
    }
}

pub fn replay(sub: &str, case: &Value) -> Option<CheckResult> {
    let mut rec = Rec::new(0);
    Some(crate::engine::guarded(|| {
        if let Some(v) = case.get("fat_case").and_then(|x| x.as_u64()) {
            return check(&fat_input(v), &mut rec);
        }
        if let Some(c) = case.get("corpus") {
            check_corpus(c.as_str().ok_or_else(bad)?, &mut rec).map(|_| ())
        } else if sub == "large-sets-under-a-roomy-geometry" {
            let mut r = gen::Recipe::from_json(case).ok_or_else(bad)?;
            let map = r.seed % 2 == 1;
            r.values = if map { 1 + (r.seed % 3) as u8 } else { 0 };
            let pairs = r.pairs();
            let rows = (pairs.len() * 8).max(1000);
            check(&FstInput::new(if map { gen::Front::MapBuilder } else { gen::Front::SetBuilder }, Some((rows, 4)), pairs), &mut rec)
        } else {
            check(&FstInput::from_json(case).ok_or_else(bad)?, &mut rec)
        }
    }))
}

#[allow(dead_code)]
fn _unused(_: BTreeMap<u8, u8>) {}
