//! Bitwise (table-free) CRC-32C, Castagnoli polynomial, reflected, with the
//! Snappy-style mask. Checked against published vectors at start-up.

pub fn crc32c(data: &[u8]) -> u32 {
    let mut crc: u32 = !0;
    for &b in data {
        crc ^= b as u32;
        for _ in 0..8 {
            let lsb = crc & 1;
            crc >>= 1;
            if lsb != 0 {
                crc ^= 0x82F6_3B78;
            }
        }
    }
    !crc
}

pub fn mask(crc: u32) -> u32 {
    ((crc >> 15) | (crc << 17)).wrapping_add(0xA282_EAD8)
}

pub fn masked(data: &[u8]) -> u32 {
    mask(crc32c(data))
}

/// Published test vectors (RFC 3720 B.4 and the common "123456789" check).
pub fn self_test() {
    assert_eq!(crc32c(b"123456789"), 0xE306_9283);
    assert_eq!(crc32c(&[0u8; 32]), 0x8A91_36AA);
    assert_eq!(crc32c(&[0xffu8; 32]), 0x62A8_AB43);
    let inc: Vec<u8> = (0u8..32).collect();
    assert_eq!(crc32c(&inc), 0x46DD_794E);
    assert_eq!(crc32c(b""), 0);
}
