//! Counting global allocator. Counting is off by default (one relaxed load
//! per call); memory-probe children switch it on.

use std::alloc::{GlobalAlloc, Layout, System};
use std::sync::atomic::{AtomicBool, AtomicUsize, Ordering};

pub struct Counting;

static ENABLED: AtomicBool = AtomicBool::new(false);
static LIVE: AtomicUsize = AtomicUsize::new(0);
static PEAK: AtomicUsize = AtomicUsize::new(0);
static COUNT: AtomicUsize = AtomicUsize::new(0);
/// Blocks currently allocated (alloc minus dealloc; realloc keeps the count).
static BLOCKS: std::sync::atomic::AtomicIsize = std::sync::atomic::AtomicIsize::new(0);
static PEAK_BLOCKS: std::sync::atomic::AtomicIsize = std::sync::atomic::AtomicIsize::new(0);
/// Allocations of at least this many bytes are refused (0 = never): used by
/// one probe child to model a process that cannot get large blocks.
static REFUSE_AT: AtomicUsize = AtomicUsize::new(0);

#[inline]
fn add(n: usize) {
    let live = LIVE.fetch_add(n, Ordering::Relaxed) + n;
    PEAK.fetch_max(live, Ordering::Relaxed);
    COUNT.fetch_add(1, Ordering::Relaxed);
}

unsafe impl GlobalAlloc for Counting {
    unsafe fn alloc(&self, l: Layout) -> *mut u8 {
        let r = REFUSE_AT.load(Ordering::Relaxed);
        if r != 0 && l.size() >= r {
            return std::ptr::null_mut();
        }
        let p = System.alloc(l);
        if !p.is_null() && ENABLED.load(Ordering::Relaxed) {
            add(l.size());
            let b = BLOCKS.fetch_add(1, Ordering::Relaxed) + 1;
            PEAK_BLOCKS.fetch_max(b, Ordering::Relaxed);
        }
        p
    }
    unsafe fn dealloc(&self, p: *mut u8, l: Layout) {
        System.dealloc(p, l);
        if ENABLED.load(Ordering::Relaxed) {
            // saturating: blocks allocated before counting was enabled
            let _ = LIVE.fetch_update(Ordering::Relaxed, Ordering::Relaxed, |v| Some(v.saturating_sub(l.size())));
            BLOCKS.fetch_sub(1, Ordering::Relaxed);
        }
    }
    unsafe fn realloc(&self, p: *mut u8, l: Layout, new: usize) -> *mut u8 {
        let q = System.realloc(p, l, new);
        if !q.is_null() && ENABLED.load(Ordering::Relaxed) {
            if new >= l.size() {
                add(new - l.size());
            } else {
                let d = l.size() - new;
                let _ = LIVE.fetch_update(Ordering::Relaxed, Ordering::Relaxed, |v| Some(v.saturating_sub(d)));
                COUNT.fetch_add(1, Ordering::Relaxed);
            }
        }
        q
    }
}

pub fn refuse_allocations_of(n: usize) {
    REFUSE_AT.store(n, Ordering::SeqCst);
}

pub fn enable() {
    ENABLED.store(true, Ordering::SeqCst);
}

pub fn live() -> usize {
    LIVE.load(Ordering::SeqCst)
}

pub fn peak() -> usize {
    PEAK.load(Ordering::SeqCst)
}

pub fn count() -> usize {
    COUNT.load(Ordering::SeqCst)
}

/// Number of live blocks (may be negative relative to blocks allocated before counting began).
pub fn blocks() -> isize {
    BLOCKS.load(Ordering::SeqCst)
}

pub fn peak_blocks() -> isize {
    PEAK_BLOCKS.load(Ordering::SeqCst)
}

/// Restart peak tracking from the current live size.
pub fn reset_peak() {
    PEAK_BLOCKS.store(BLOCKS.load(Ordering::SeqCst), Ordering::SeqCst);
    PEAK.store(LIVE.load(Ordering::SeqCst), Ordering::SeqCst);
}
