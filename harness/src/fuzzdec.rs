//! Decoding of fuzzer bytes into structured cases, shared by the libFuzzer
//! targets in /verif/fuzz and by `vf --replay <artifact>`. Hand-written
//! data-provider layer (no derive available offline).

use crate::engine::{CheckResult, Rec};
use crate::gen::{self, FstInput, Pairs};
use crate::refcodec::Policy;

pub struct Data<'a> {
    d: &'a [u8],
    pos: usize,
}

impl<'a> Data<'a> {
    pub fn new(d: &'a [u8]) -> Data<'a> {
        Data { d, pos: 0 }
    }
    pub fn u8(&mut self) -> u8 {
        let b = self.d.get(self.pos).copied().unwrap_or(0);
        self.pos += 1;
        b
    }
    pub fn u64(&mut self) -> u64 {
        let mut x = 0u64;
        for i in 0..8 {
            x |= (self.u8() as u64) << (8 * i);
        }
        x
    }
    pub fn bytes(&mut self, max: usize) -> Vec<u8> {
        let n = (self.u8() as usize) % (max + 1);
        (0..n).map(|_| self.u8()).collect()
    }
    pub fn done(&self) -> bool {
        self.pos >= self.d.len()
    }
    pub fn rest(&self) -> &'a [u8] {
        &self.d[self.pos.min(self.d.len())..]
    }
    /// A value biased toward the pack-width boundaries.
    pub fn value(&mut self) -> u64 {
        let sel = self.u8();
        match sel % 4 {
            0 => gen::BOUNDARY_VALUES[(sel as usize / 4) % gen::BOUNDARY_VALUES.len()],
            1 => (sel / 4) as u64,
            2 => self.u64(),
            _ => (self.u8() as u64) << (8 * ((sel / 4) % 8)),
        }
    }
    /// Sorted, de-duplicated key/value pairs until the data runs out
    /// (or `max` pairs).
    pub fn pairs(&mut self, max: usize) -> Pairs {
        let n = (self.u8() as usize) % (max + 1);
        let mut ps: Pairs = vec![];
        for _ in 0..n {
            if self.done() {
                break;
            }
            let k = self.bytes(10);
            let v = self.value();
            ps.push((k, v));
        }
        gen::sort_dedup(ps)
    }
}

pub fn fst_input(d: &mut Data) -> FstInput {
    let front = gen::ALL_FRONTS[d.u8() as usize % gen::ALL_FRONTS.len()];
    // always a small hook geometry: the default 20 000-cell cache costs a
    // 1 MB allocation per build, which dominates under ASan (the default
    // geometry is covered by the proptest tiers)
    let g = d.u8() as usize;
    let geom = Some(gen::HOOK_GEOMS[g % gen::HOOK_GEOMS.len()]);
    let ty = if d.u8() % 4 == 0 { d.u64() } else { 0 };
    let pairs = d.pairs(48);
    let mut inp = FstInput::new(front, geom, pairs);
    if front.takes_type() {
        inp.ty = ty;
    }
    inp
}

/// C20: raw bytes straight into open + accessors + verify.
pub fn open_verify(data: &[u8]) -> CheckResult {
    crate::props::c20::check_bytes(data, &mut Rec::new(0))
}

/// C08: build recipe + mutation list; corruption is never certified.
pub fn mutate_verify(data: &[u8]) -> CheckResult {
    let mut d = Data::new(data);
    let input = fst_input(&mut d);
    let nm = 1 + d.u8() % 4;
    let pos = d.u64() as usize;
    let bytes: Vec<u8> = (0..nm).map(|i| if i == 0 { d.u8() | 1 } else { d.u8() }).collect();
    crate::props::c08::check_mut_case(&input, pos, &bytes)
}

/// C10: bytes -> map -> reference encoder (version, policy) -> open -> queries.
pub fn reader_versions(data: &[u8]) -> CheckResult {
    let mut d = Data::new(data);
    let version = 1 + (d.u8() % 3) as u64;
    let p = d.u8();
    let policy = Policy { share: p & 1 == 1, use_otn: p & 2 == 2, wide: p & 4 == 4 };
    let container = d.u8() % 8;
    let ty = if d.u8() % 4 == 0 { d.u64() } else { 0 };
    let pairs = d.pairs(40);
    crate::props::c10::check_case(pairs, version, ty, policy, container)
}

/// C01/C02/C03/C09: bytes -> key set / values / front end -> build -> every
/// enumeration path, probes, one range, format conformance.
pub fn roundtrip(data: &[u8]) -> CheckResult {
    let mut d = Data::new(data);
    let input = fst_input(&mut d);
    let mut rec = Rec::new(0);
    let built = match gen::build(&input) {
        Ok(b) => b,
        Err(e) => return Err(crate::engine::Fail::new("build-error", e)),
    };
    crate::props::c01::check_bytes(&built.bytes, &input, true)?;
    crate::props::c09::check_bytes(&built.bytes, input.ty, &input.pairs, &mut rec, || serde_json::Value::Null, 0)?;
    let extra: Vec<Vec<u8>> = (0..(d.u8() % 4)).map(|_| d.bytes(10)).collect();
    let (probes, _) = crate::oracle::probes(&input.pairs, false, &extra);
    crate::oracle::check_lookups(&built.bytes, &input.pairs, &probes)?;
    let nb = d.u8() % 4;
    let mut bounds = vec![];
    for _ in 0..nb {
        let kind = crate::oracle::Kind::all()[d.u8() as usize % 4];
        let key = if d.u8() % 2 == 0 && !input.pairs.is_empty() {
            let mut k = input.pairs[d.u8() as usize % input.pairs.len()].0.clone();
            match d.u8() % 4 {
                0 => {}
                1 => k.push(0),
                2 => {
                    k.pop();
                }
                _ => {
                    if let Some(l) = k.last_mut() {
                        *l = l.wrapping_add(1);
                    }
                }
            }
            k
        } else {
            d.bytes(6)
        };
        bounds.push((kind, key));
    }
    crate::oracle::check_range(&built.bytes, &input.pairs, &bounds, true)
}

pub fn run_target(target: &str, data: &[u8]) -> Option<CheckResult> {
    Some(crate::engine::guarded(|| match target {
        "open_verify" => open_verify(data),
        "mutate_verify" => mutate_verify(data),
        "reader_versions" => reader_versions(data),
        "roundtrip" => roundtrip(data),
        _ => return Ok(()),
    }))
}
