#!/bin/bash
# Build the framework offline from files on disk only.
set -e
cd /verif
export CARGO_NET_OFFLINE=true
export RUSTFLAGS="--cfg burntsushi_fst_verif"
mkdir -p target work evidence replays/found
( cd harness && cargo build --release --offline )
( cd /repo/fst-bin && CARGO_TARGET_DIR=/verif/target/repo-hooks cargo build --release --offline )
echo "setup ok"
